#pragma once
#include <cmath>
#include <complex>
#include <cstring>
#include <string>
#include <vector>
#include <stdexcept>
#include <algorithm>
namespace d0ref {
typedef double R;
typedef std::complex<double> C;
struct CmpRec { int draw; int line; double a,b; int cls; };
struct CallRec { int unit; int draw; std::vector<double> args; };
struct Monitor {
  double (*source)(size_t pos, void* ctx) = nullptr; void* ctx=nullptr;
  size_t next = 0; size_t horizon = 100000; bool stub_bb=false; long bb_calls=0;
  double min_margin = 1e300; int min_margin_line = 0; double min_qmargin = 1e300; double min_smargin = 1e300; double min_tmargin = 1e300; long clamp_fired = 0; long ncmp = 0;
  std::vector<int> draw_sites; std::vector<unsigned> draw_ctx; std::vector<double> draw_vals;
  std::vector<CmpRec> cmps; bool log_cmps=false; int log_draw=-1;
  std::vector<CallRec> calls; bool log_calls=false;
  int stack[64]; int sp=0;
  void reset(){ next=0; min_margin=1e300; min_qmargin=1e300; min_smargin=1e300; min_tmargin=1e300; clamp_fired=0; ncmp=0; draw_sites.clear(); draw_ctx.clear(); draw_vals.clear(); cmps.clear(); calls.clear(); sp=0; }
};
struct HorizonExceeded {};
extern Monitor mon;
inline R DRAW(int site){ if (mon.next>=mon.horizon) throw HorizonExceeded(); unsigned h=2166136261u; for(int i=0;i<mon.sp;i++){h=(h^(unsigned)mon.stack[i])*16777619u;} h=(h^(unsigned)site)*16777619u;
  mon.draw_sites.push_back(site); mon.draw_ctx.push_back(h); double v = mon.source(mon.next, mon.ctx); mon.draw_vals.push_back(v); mon.next++; return v; }
inline void margin(R a, R b,int line){ mon.ncmp++; if (mon.log_cmps && (mon.log_draw==-2 || (int)mon.next-1==mon.log_draw)) mon.cmps.push_back({(int)mon.next-1,line,a,b,0}); if (a==b) return; double m = std::fabs(a-b)/(std::fabs(a)+std::fabs(b)); if (m<mon.min_margin) { mon.min_margin=m; mon.min_margin_line=line; } }
inline bool CMP_LT(R a,R b,int l){ margin(a,b,l); return a<b; }
inline bool CMP_LE(R a,R b,int l){ margin(a,b,l); return a<=b; }
inline bool CMP_GT(R a,R b,int l){ margin(a,b,l); return a>b; }
inline bool CMP_GE(R a,R b,int l){ margin(a,b,l); return a>=b; }
// comparisons of the golden-section search: tracked separately (a near-tie there moves the located extremum by up to
// the search tolerance, it does not change control flow elsewhere)
inline void qmargin(R a,R b){ if (a==b) return; double m = std::fabs(a-b)/(std::fabs(a)+std::fabs(b)); if (m<mon.min_qmargin) mon.min_qmargin=m; }
inline bool QCMP_LT(R a,R b,int){ qmargin(a,b); return a<b; } inline bool QCMP_LE(R a,R b,int){ qmargin(a,b); return a<=b; }
inline bool QCMP_GT(R a,R b,int){ qmargin(a,b); return a>b; } inline bool QCMP_GE(R a,R b,int){ qmargin(a,b); return a>=b; }
inline bool QCMP_EQ(R a,R b,int){ return a==b; } inline bool QCMP_NE(R a,R b,int){ return a!=b; }
inline void smargin(R a, R b,int line){ mon.ncmp++; if (mon.log_cmps && (mon.log_draw==-2 || (int)mon.next-1==mon.log_draw)) mon.cmps.push_back({(int)mon.next-1,line,a,b,1}); if (a==b) return; double m = std::fabs(a-b)/(std::fabs(a)+std::fabs(b)); if (m<mon.min_smargin) mon.min_smargin=m; }
inline bool SCMP_LT(R a,R b,int l){ smargin(a,b,l); return a<b; } inline bool SCMP_LE(R a,R b,int l){ smargin(a,b,l); return a<=b; }
inline bool SCMP_GT(R a,R b,int l){ smargin(a,b,l); return a>b; } inline bool SCMP_GE(R a,R b,int l){ smargin(a,b,l); return a>=b; }
inline bool SCMP_EQ(R a,R b,int){ return a==b; } inline bool SCMP_NE(R a,R b,int){ return a!=b; }
inline void tmargin(R a, R b,int line){ mon.ncmp++; if (mon.log_cmps && (mon.log_draw==-2 || (int)mon.next-1==mon.log_draw)) mon.cmps.push_back({(int)mon.next-1,line,a,b,3}); if (a==b) return; double m = std::fabs(a-b)/(std::fabs(a)+std::fabs(b)); if (m<mon.min_tmargin) mon.min_tmargin=m; }
inline bool TCMP_LT(R a,R b,int l){ tmargin(a,b,l); return a<b; } inline bool TCMP_LE(R a,R b,int l){ tmargin(a,b,l); return a<=b; }
inline bool TCMP_GT(R a,R b,int l){ tmargin(a,b,l); return a>b; } inline bool TCMP_GE(R a,R b,int l){ tmargin(a,b,l); return a>=b; }
inline bool TCMP_EQ(R a,R b,int){ return a==b; } inline bool TCMP_NE(R a,R b,int){ return a!=b; }
inline void cmargin(R a, R b,int line){ mon.ncmp++; if (mon.log_cmps && (mon.log_draw==-2 || (int)mon.next-1==mon.log_draw)) mon.cmps.push_back({(int)mon.next-1,line,a,b,2}); }
inline bool CCMP_LT(R a,R b,int l){ cmargin(a,b,l); if (a<b) mon.clamp_fired++; return a<b; } inline bool CCMP_LE(R a,R b,int l){ cmargin(a,b,l); return a<=b; }
inline bool CCMP_GT(R a,R b,int l){ cmargin(a,b,l); return a>b; } inline bool CCMP_GE(R a,R b,int l){ cmargin(a,b,l); return a>=b; }
inline bool CCMP_EQ(R a,R b,int){ return a==b; } inline bool CCMP_NE(R a,R b,int){ return a!=b; }
inline bool CMP_EQ(R a,R b,int){ return a==b; }
inline bool CMP_NE(R a,R b,int){ return a!=b; }
inline void TRACE_CALL(int unit, std::initializer_list<double> a){ if (mon.log_calls) mon.calls.push_back({unit,(int)mon.next,std::vector<double>(a)}); }
inline void CALL(int l){ if(mon.sp<64) mon.stack[mon.sp]=l; mon.sp++; } inline void RET(){ mon.sp--; }
template<class T> struct farr {
  std::vector<T> v; int d1=1,d2=1;
  farr(int a):v(a),d1(a){} farr(int a,int b):v((size_t)a*b),d1(a),d2(b){}
  T& operator()(int i){ if(i<1||i>(int)v.size()) throw std::out_of_range("ref array index"); return v[i-1]; }
  T& operator()(int i,int j){ if(i<1||i>d1||j<1||j>d2) throw std::out_of_range("ref array index2"); return v[(i-1)+(size_t)(j-1)*d1]; }
};
struct fstr {
  std::string s;
  fstr(int n=1):s(n,' '){} 
  fstr(const std::string& x, bool):s(x){}
  void assign(const fstr& o){ size_t n=s.size(); s = o.s.substr(0,n); s.resize(n,' '); }
  fstr sub(int a,int b) const { return fstr(s.substr(a-1,b-a+1),true); }
};
inline fstr FS(const char* c){ return fstr(std::string(c),true); }
inline int fs_cmp(const fstr&a,const fstr&b){ size_t n=std::max(a.s.size(),b.s.size()); std::string x=a.s,y=b.s; x.resize(n,' '); y.resize(n,' '); return x.compare(y); }
inline bool fs_eq(const fstr&a,const fstr&b){ return fs_cmp(a,b)==0; }
inline bool fs_ne(const fstr&a,const fstr&b){ return fs_cmp(a,b)!=0; }
template<class T> struct TmpHolder { T v; TmpHolder(T x):v(x){} operator T&(){return v;} };
template<class T, class X> inline T& TMP(X&& x){ thread_local static T ring[64]; thread_local static int k=0; T& r=ring[(k++)&63]; r=T(x); return r; }
template<> inline fstr& TMP<fstr,fstr>(fstr&& x){ thread_local static fstr ring[16]; thread_local static int k=0; fstr& r=ring[(k++)&15]; r=x; return r; }
template<class T> inline T F_ABS(T x){ return x<0?-x:x; }
inline R F_MAX(R a,R b){ return a>b?a:b; } inline R F_MIN(R a,R b){ return a<b?a:b; }
inline int F_MAX(int a,int b){ return a>b?a:b; } inline int F_MIN(int a,int b){ return a<b?a:b; }
inline R F_MAX(R a,R b,R c){ return F_MAX(F_MAX(a,b),c);} 
inline int F_INT(R x,int){ return (int)x; } inline int F_INT(int x,int){ return x; }
inline int F_NINT(R x,int){ return (int)std::lround(x); }
inline R F_ANINT(R x){ return std::round(x); }
inline R F_REAL(R x){ return x; } inline R F_REAL(int x){ return (R)x; }
inline int F_TRUNC(R x){ return (int)x; }
inline int F_MOD(int a,int b){ return a%b; } inline R F_MOD(R a,R b){ return std::fmod(a,b);} 
inline R F_SIGN(R a,R b){ return b>=0?std::fabs(a):-std::fabs(a);} 
inline C F_CMPLX(R a,R b){ return C(a,b);} 
inline R F_POWI(R b,int e){ R r=1; bool neg=e<0; if(neg)e=-e; while(e--) r*=b; return neg?1/r:r; }
inline C F_POWI(C b,int e){ return std::pow(b,e);} 
inline int F_IPOWI(int b,int e){ int r=1; while(e-->0) r*=b; return r; }
inline void F_STOP(){ throw std::runtime_error("ref STOP"); }
inline void F_UNSUPPORTED_IO(int l){ throw std::runtime_error("ref unsupported io"); }
// CERNLIB shims
R f_gauss(R (*f)(R&), R& a, R& b, R& eps);
R f_dgmlt1(void (*fsub)(int&, farr<R>&, farr<R>&, farr<R>&), R& a, R& b, int& ni, int& ng, farr<R>& x);
inline R f_dgmlt1(void (*fsub)(int&, farr<R>&, farr<R>&, farr<R>&), R& a, R& b, int& ni, int& ng, R& x){ farr<R> xx(8); return f_dgmlt1(fsub,a,b,ni,ng,xx);} 
R f_dgmlt2(void (*fsub)(int&, farr<R>&, farr<R>&, farr<R>&), R& a, R& b, int& ni, int& ng, farr<R>& x);
R f_divdif(farr<R>& f, farr<R>& a, int& nn, R& x, int& mm);
C f_cgamma(C& z);
void f_ranlux(farr<R>& r, int& n);
void f_datime(int&,int&);
}
