#include "d0rt.h"
#include <vector>
namespace d0ref {
Monitor mon;
static void gl_nodes(int n, std::vector<double>& x, std::vector<double>& w){
  x.resize(n); w.resize(n);
  for (int i=0;i<n;i++){ double z=std::cos(M_PI*(i+0.75)/(n+0.5)); double pp=0;
    for(int it=0;it<100;it++){ double p1=1,p2=0; for(int j=0;j<n;j++){ double p3=p2;p2=p1;p1=((2.0*j+1)*z*p2-j*p3)/(j+1);} pp=n*(z*p1-p2)/(z*z-1); double z1=z; z=z1-p1/pp; if(std::fabs(z-z1)<1e-16) break; }
    x[i]=z; w[i]=2.0/((1-z*z)*pp*pp); }
}
R f_gauss(R (*f)(R&), R& a, R& b, R& eps){
  static std::vector<double> x8,w8,x16,w16; if(x8.empty()){gl_nodes(8,x8,w8);gl_nodes(16,x16,w16);}
  double h=0; if(b==a) return 0; const double cst=5e-3/std::fabs(b-a); double bb=a, aa;
  while(true){ aa=bb; bb=b;
    while(true){ double c1=0.5*(bb+aa), c2=0.5*(bb-aa); double s8=0,s16=0;
      for(int i=0;i<8;i++){ R u=c1+c2*x8[i]; s8+=w8[i]*f(u);} for(int i=0;i<16;i++){ R u=c1+c2*x16[i]; s16+=w16[i]*f(u);} s16*=c2;
      if(std::fabs(s16-c2*s8)<=eps*(1+std::fabs(s16))){ h+=s16; break; }
      bb=c1; if(1+cst*std::fabs(c2)==1){ return 0; } }
    if(bb==b) break; }
  return h; }
static R dgmlt(void (*fsub)(int&, farr<R>&, farr<R>&, farr<R>&), R a, R b, int ni, int ng, farr<R>& x){
  static std::vector<double> x6,w6,x8,w8; if(x6.empty()){gl_nodes(6,x6,w6);gl_nodes(8,x8,w8);}
  int n = (ng==8)?8:6; auto& xs=(n==8)?x8:x6; auto& ws=(n==8)?w8:w6;
  double d=(b-a)/ni, r=0; farr<R> u(n), fv(n);
  for(int l=0;l<ni;l++){ double aa=a+l*d, bbv=aa+d; double c1=0.5*(aa+bbv), c2=0.5*(bbv-aa);
    for(int k=0;k<n;k++) u(k+1)=c1+c2*xs[k]; int m=n; fsub(m,u,fv,x); double s=0; for(int k=0;k<n;k++) s+=ws[k]*fv(k+1); r+=c2*s; }
  return r; }
R f_dgmlt1(void (*fsub)(int&, farr<R>&, farr<R>&, farr<R>&), R& a, R& b, int& ni, int& ng, farr<R>& x){ return dgmlt(fsub,a,b,ni,ng,x);} 
R f_dgmlt2(void (*fsub)(int&, farr<R>&, farr<R>&, farr<R>&), R& a, R& b, int& ni, int& ng, farr<R>& x){ return dgmlt(fsub,a,b,ni,ng,x);} 
R f_divdif(farr<R>& F, farr<R>& A, int& nn, R& x, int& mm){
  double T[21],D[21]; int n=nn; int m=std::min(std::min(mm,10),n-1); int mplus=m+1; int ix=0, iy=n+1;
  if(A(1)>A(n)){ while(iy-ix>1){int mid=(ix+iy)/2; if(x<=A(mid)) ix=mid; else iy=mid;} }
  else { while(iy-ix>1){int mid=(ix+iy)/2; if(x>=A(mid)) ix=mid; else iy=mid;} }
  int npts=m+2-(m%2), ip=0, l=0; bool first=true;
  while(true){ if(!first){ l=-l; if(l>=0) l=l+1; } first=false; int isub=ix+l;
    if(1<=isub && isub<=n){ ip++; T[ip]=A(isub); D[ip]=F(isub);} else { npts=mplus; }
    if(ip>=npts) break; }
  bool extra = npts!=mplus;
  for(int L=1;L<=m;L++){ if(extra){int isub=mplus-L; D[m+2]=(D[m+2]-D[m])/(T[m+2]-T[isub]);} int i=mplus; for(int j=L;j<=m;j++){int isub=i-L; D[i]=(D[i]-D[i-1])/(T[i]-T[isub]); i--; } }
  double sum=D[mplus]; if(extra) sum=0.5*(sum+D[m+2]); int j=m; for(int L=1;L<=m;L++){ sum=D[j]+(x-T[j])*sum; j--; }
  return sum; }
static C clgamma(C z){ // Lanczos g=7
  static const double g=7; static const double c[9]={0.99999999999980993,676.5203681218851,-1259.1392167224028,771.32342877765313,-176.61502916214059,12.507343278686905,-0.13857109526572012,9.9843695780195716e-6,1.5056327351493116e-7};
  if(z.real()<0.5){ return std::log(M_PI/std::sin(M_PI*z)) - clgamma(1.0-z); }
  z-=1.0; C xx=c[0]; for(int i=1;i<9;i++) xx+=c[i]/(z+(double)i); C t=z+g+0.5; return 0.5*std::log(2*M_PI)+(z+0.5)*std::log(t)-t+std::log(xx); }
C f_cgamma(C& z){ return std::exp(clgamma(z)); }
void f_ranlux(farr<R>& r, int& n){ for(int i=1;i<=n;i++) r(i)=DRAW(-1); }
void f_datime(int&,int&){}
}
