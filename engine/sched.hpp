// sched.hpp — cooperative scheduler for preemption-bounded exhaustive exploration of thread interleavings
// (DESIGN 1.5). One OS thread per harness thread, exactly one runnable at a time; hand-off through raw futexes
// (no pthread mutex/condvar inside, because pthread_mutex_* are themselves interposed scheduling points).
// A *scheduling point* is reached before every interposed synchronisation operation of the code under test.
// The schedule is a sequence of choices (index into the canonical enabled list: the running thread first if it
// is still enabled, then ascending ids); a prefix is replayed, beyond it choice 0 is taken. Everything needed by
// the explorer (enabled count, choice, "running still enabled", state hash) is logged into a shared-memory area so
// that it survives the death of the child that runs the schedule.
#pragma once
#include <atomic>
#include <climits>
#include <cstdint>
#include <cstdio>
#include <cstdlib>
#include <cstring>
#include <linux/futex.h>
#include <pthread.h>
#include <sys/mman.h>
#include <sys/syscall.h>
#include <unistd.h>
#include <vector>

namespace sch {

static const int MAXT = 4;
static const int MAXP = 4096;

struct Log {
  int npoints;
  unsigned char nen[MAXP];      // number of enabled threads at the point
  unsigned char chosen[MAXP];   // index chosen
  unsigned char run_en[MAXP];   // was the running thread still enabled (switching away = preemption)
  unsigned char tid[MAXP];      // thread that reached the point
  unsigned short label[MAXP];   // what kind of point
  uint32_t hash[MAXP];          // observable-state hash at the point
  int divergence;               // replay chose an out-of-range index
  int deadlock;                 // no enabled thread while some are unfinished
  int horizon;                  // step horizon exceeded
  int finished;                 // all threads ran to completion
  double result[MAXT][8];       // harness-defined observations
  long user[16];
};

struct State {
  int nt = 0;
  std::atomic<int> cur{-1};     // thread allowed to run (-2: all done)
  bool alive[MAXT] = {false, false, false, false};
  const void * waiting_on[MAXT] = {nullptr, nullptr, nullptr, nullptr}; // blocked on this lock
  int pc[MAXT] = {0, 0, 0, 0};
  bool active = false;
  std::vector<int> prefix;
  Log * log = nullptr;
  int horizon = 3000;
  uint32_t (*state_hash)() = nullptr;
};

static State S;
static __thread int me = -1;

static inline void futex_wait(std::atomic<int> * a, int val) { syscall(SYS_futex, (int *)a, FUTEX_WAIT, val, nullptr, nullptr, 0); }
static inline void futex_wake_all(std::atomic<int> * a) { syscall(SYS_futex, (int *)a, FUTEX_WAKE, INT_MAX, nullptr, nullptr, 0); }

static inline void wait_turn()
{
  for (;;) {
    int c = S.cur.load(std::memory_order_acquire);
    if (c == me) return;
    futex_wait(&S.cur, c);
  }
}

static inline void give_turn(int to)
{
  S.cur.store(to, std::memory_order_release);
  futex_wake_all(&S.cur);
}

static inline bool enabled(int t) { return S.alive[t] && S.waiting_on[t] == nullptr; }

// called by the running thread; may hand the processor to another thread and returns when this thread runs again
static void point(int label)
{
  if (!S.active || me < 0) return;
  S.pc[me]++;
  int en[MAXT], n = 0;
  bool self = enabled(me);
  if (self) en[n++] = me;
  for (int i = 0; i < S.nt; i++)
    if (i != me && enabled(i)) en[n++] = i;
  Log * L = S.log;
  int k = L->npoints;
  if (k >= S.horizon || k >= MAXP) {
    L->horizon = 1;
    _exit(40);
  }
  if (n == 0) {
    bool unfinished = false;
    for (int i = 0; i < S.nt; i++)
      if (S.alive[i]) unfinished = true;
    if (unfinished) {
      L->deadlock = 1;
      _exit(41);
    }
    give_turn(-2);
    return;
  }
  int choice = 0;
  if (k < (int)S.prefix.size()) choice = S.prefix[k];
  if (choice >= n) {
    L->divergence = 1;
    _exit(42);
  }
  L->nen[k] = (unsigned char)n;
  L->chosen[k] = (unsigned char)choice;
  L->run_en[k] = self ? 1 : 0;
  L->tid[k] = (unsigned char)me;
  L->label[k] = (unsigned short)label;
  L->hash[k] = S.state_hash ? S.state_hash() : 0;
  L->npoints = k + 1;
  int nxt = en[choice];
  if (nxt != me) {
    give_turn(nxt);
    if (S.alive[me]) wait_turn();
  }
}

// ---- lock modelling (a waiting acquire is blocked, not spinning)
template <class TryLock>
static void lock_point(const void * m, int label, TryLock trylock)
{
  if (!S.active || me < 0) {
    while (!trylock()) sched_yield();
    return;
  }
  for (;;) {
    point(label);
    if (trylock()) return;
    S.waiting_on[me] = m; // disabled until somebody releases m
    point(label + 1);
  }
}
static void unlock_point(const void * m, int label)
{
  if (!S.active || me < 0) return;
  for (int i = 0; i < S.nt; i++)
    if (S.waiting_on[i] == m) S.waiting_on[i] = nullptr;
  point(label);
}

// ---- running one schedule (in the calling process; fork around it for containment)
struct ThreadArg {
  int id;
  void (*body)(int);
};
static void * trampoline(void * a)
{
  ThreadArg * ta = (ThreadArg *)a;
  me = ta->id;
  wait_turn();
  ta->body(ta->id);
  // thread end is a scheduling point: pick who continues
  S.alive[me] = false;
  point(999);
  bool any = false;
  for (int i = 0; i < S.nt; i++)
    if (S.alive[i]) any = true;
  if (!any) give_turn(-2);
  return nullptr;
}

static void run_schedule(int nt, void (*body)(int), const std::vector<int> & prefix, Log * log, uint32_t (*hash)(), int horizon)
{
  S.nt = nt;
  S.prefix = prefix;
  S.log = log;
  S.state_hash = hash;
  S.horizon = horizon;
  for (int i = 0; i < nt; i++) {
    S.alive[i] = true;
    S.waiting_on[i] = nullptr;
    S.pc[i] = 0;
  }
  pthread_t th[MAXT];
  ThreadArg args[MAXT];
  S.cur.store(-1);
  S.active = true;
  for (int i = 0; i < nt; i++) {
    args[i] = {i, body};
    pthread_create(&th[i], nullptr, trampoline, &args[i]);
  }
  give_turn(0);
  for (int i = 0; i < nt; i++) pthread_join(th[i], nullptr);
  S.active = false;
  log->finished = 1;
}

static Log * shared_log()
{
  return (Log *)mmap(nullptr, sizeof(Log), PROT_READ | PROT_WRITE, MAP_SHARED | MAP_ANONYMOUS, -1, 0);
}

} // namespace sch
