// pool.hpp — fork-per-item process pool: each item is handled in a child (fatal outcomes are contained,
// process-global state of the model never leaks between items); the child's result string comes back
// through a pipe. Crashes/timeouts are reported through on_crash.
#pragma once
#include <csignal>
#include <functional>
#include <map>
#include <string>
#include <sys/select.h>
#include <sys/wait.h>
#include <unistd.h>
#include <vector>

namespace vx {

inline void run_pool(size_t nitems, int jobs, unsigned timeout_s, const std::function<std::string(size_t)> & work,
                     const std::function<void(size_t, const std::string &)> & on_result, const std::function<void(size_t, const std::string &)> & on_crash)
{
  struct Child {
    pid_t pid;
    int fd;
    size_t idx;
    std::string buf;
  };
  std::vector<Child> running;
  size_t next = 0, done = 0;
  while (done < nitems) {
    while (running.size() < (size_t)jobs && next < nitems) {
      int pfd[2];
      if (pipe(pfd)) _exit(2);
      fflush(nullptr); // nothing buffered may be inherited (a child that flushes would emit it a second time)
      pid_t p = fork();
      if (p == 0) {
        close(pfd[0]);
        alarm(timeout_s);
        std::string r = work(next);
        size_t off = 0;
        while (off < r.size()) {
          ssize_t n = write(pfd[1], r.data() + off, r.size() - off);
          if (n <= 0) break;
          off += n;
        }
        close(pfd[1]);
        _exit(0);
      }
      close(pfd[1]);
      running.push_back({p, pfd[0], next, ""});
      next++;
    }
    bool progressed = false;
    for (size_t k = 0; k < running.size();) {
      Child & ch = running[k];
      char b[65536];
      for (;;) {
        fd_set rs;
        FD_ZERO(&rs);
        FD_SET(ch.fd, &rs);
        struct timeval tv = {0, 0};
        if (select(ch.fd + 1, &rs, nullptr, nullptr, &tv) <= 0) break;
        ssize_t n = read(ch.fd, b, sizeof b);
        if (n <= 0) break;
        ch.buf.append(b, n);
      }
      int status = 0;
      if (waitpid(ch.pid, &status, WNOHANG) == 0) {
        k++;
        continue;
      }
      ssize_t n;
      while ((n = read(ch.fd, b, sizeof b)) > 0) ch.buf.append(b, n);
      close(ch.fd);
      if (WIFEXITED(status) && WEXITSTATUS(status) == 0) on_result(ch.idx, ch.buf);
      else on_crash(ch.idx, WIFSIGNALED(status) ? ("signal " + std::to_string(WTERMSIG(status))) : ("exit " + std::to_string(WEXITSTATUS(status))));
      running.erase(running.begin() + k);
      done++;
      progressed = true;
    }
    if (!progressed) usleep(1000);
  }
}

inline std::string jstr(const std::string & s)
{
  std::string o = "\"";
  for (char ch : s) {
    if (ch == '"' || ch == '\\') {
      o += '\\';
      o += ch;
    } else if (ch == '\n') o += "\\n";
    else if ((unsigned char)ch < 32) o += ' ';
    else o += ch;
  }
  return o + "\"";
}

} // namespace vx
