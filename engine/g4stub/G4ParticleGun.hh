#pragma once
#include "G4Event.hh"
#include "G4ParticleMomentum.hh"
// Follows Geant4's G4ParticleGun semantics for the members the extension touches: SetParticleMomentum(vector) sets the
// direction, the momentum magnitude and the kinetic energy from the particle mass.
class G4ParticleGun {
public:
  G4ParticleGun() = default;
  G4ParticleGun(G4int n) : NumberOfParticlesToBeGenerated(n) {}
  G4ParticleGun(G4ParticleDefinition * d, G4int n = 1) : NumberOfParticlesToBeGenerated(n), particle_definition(d) {}
  virtual ~G4ParticleGun() = default;
  void SetParticleDefinition(G4ParticleDefinition * d) { particle_definition = d; }
  void SetParticleTime(G4double t) { particle_time = t; }
  void SetParticlePosition(G4ThreeVector p) { particle_position = p; }
  void SetParticleMomentum(G4ParticleMomentum p)
  {
    double m = p.mag();
    particle_momentum = m;
    particle_momentum_direction = m > 0 ? G4ThreeVector(p.x() / m, p.y() / m, p.z() / m) : G4ThreeVector(0, 0, 0);
    double mass = particle_definition ? particle_definition->GetPDGMass() : 0.0;
    particle_energy = std::sqrt(m * m + mass * mass) - mass;
  }
  virtual void GeneratePrimaryVertex(G4Event * ev)
  {
    // G4ParticleGun semantics: NumberOfParticlesToBeGenerated primaries per call
    for (G4int k = 0; k < NumberOfParticlesToBeGenerated; k++)
      ev->primaries.push_back({particle_definition, particle_momentum_direction, particle_momentum, particle_energy, particle_position, particle_time, NumberOfParticlesToBeGenerated});
  }
  void SetNumberOfParticles(G4int n) { NumberOfParticlesToBeGenerated = n; }
  G4int GetNumberOfParticles() const { return NumberOfParticlesToBeGenerated; }
protected:
  G4int NumberOfParticlesToBeGenerated = 1;
  G4ParticleDefinition * particle_definition = nullptr;
  G4ParticleMomentum particle_momentum_direction;
  G4double particle_energy = 0, particle_momentum = 0;
  G4double particle_charge = 0;
  G4ThreeVector particle_polarization, particle_position;
  G4double particle_time = 0;
};
