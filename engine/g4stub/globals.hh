// Minimal stand-in for the Geant4 classes used by the BxDecay0 Geant4 extension (DESIGN 1.6 E8).
// Units follow CLHEP: MeV = 1, mm = 1, ns = 1 (second = 1e9).
#pragma once
#include <cmath>
#include <iostream>
#include <stdexcept>
#include <string>
#include <vector>
typedef double G4double;
typedef int G4int;
typedef bool G4bool;
typedef std::string G4String;
#define G4cout std::cout
#define G4cerr std::cerr
#define G4endl std::endl
namespace CLHEP {
static const double MeV = 1.0, keV = 1e-3, GeV = 1e3, eV = 1e-6;
static const double millimeter = 1.0, mm = 1.0, cm = 10.0, m = 1000.0;
static const double nanosecond = 1.0, ns = 1.0, second = 1.0e9, s = 1.0e9, ms = 1.0e6;
static const double degree = M_PI / 180.0, radian = 1.0;
}
enum G4ExceptionSeverity { FatalException, FatalErrorInArgument, RunMustBeAborted, EventMustBeAborted, JustWarning };
struct G4StubException : std::runtime_error { using std::runtime_error::runtime_error; };
inline void G4Exception(const char * origin, const char * code, G4ExceptionSeverity sev, const char * desc)
{
  if (sev == JustWarning) return;
  throw G4StubException(std::string(origin) + " [" + code + "] " + desc);
}
