#pragma once
#include "globals.hh"
class G4RunManager {
public:
  static G4RunManager * GetRunManager() { static G4RunManager r; return &r; }
  void AbortRun(bool = false) { aborts++; }
  int aborts = 0;
};
