#pragma once
#include "G4ThreeVector.hh"
#include "G4ParticleDefinition.hh"
// records every primary handed over through G4ParticleGun::GeneratePrimaryVertex
struct G4StubPrimary {
  const G4ParticleDefinition * def;
  G4ThreeVector momentum_direction;
  double momentum, energy;
  G4ThreeVector position;
  double time;
  int number;
};
class G4Event {
public:
  std::vector<G4StubPrimary> primaries;
};
