#pragma once
#include "G4ParticleDefinition.hh"
G4STUB_PARTICLE(G4Electron, ElectronDefinition, "e-", 0.51099891, -1)
