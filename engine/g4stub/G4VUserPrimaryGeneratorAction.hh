#pragma once
#include "globals.hh"
class G4Event;
class G4VUserPrimaryGeneratorAction {
public:
  G4VUserPrimaryGeneratorAction() = default;
  virtual ~G4VUserPrimaryGeneratorAction() = default;
  virtual void GeneratePrimaries(G4Event *) = 0;
};
