#pragma once
#include "globals.hh"
class G4ThreeVector {
public:
  G4ThreeVector(double x = 0, double y = 0, double z = 0) : _x(x), _y(y), _z(z) {}
  double x() const { return _x; }
  double y() const { return _y; }
  double z() const { return _z; }
  double mag() const { return std::sqrt(_x * _x + _y * _y + _z * _z); }
  void set(double x, double y, double z) { _x = x; _y = y; _z = z; }
  bool operator==(const G4ThreeVector & o) const { return _x == o._x && _y == o._y && _z == o._z; }
private:
  double _x, _y, _z;
};
