#pragma once
#include "G4ParticleDefinition.hh"
G4STUB_PARTICLE(G4Gamma, GammaDefinition, "gamma", 0, 0)
