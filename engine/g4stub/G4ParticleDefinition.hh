#pragma once
#include "globals.hh"
class G4ParticleDefinition {
public:
  G4ParticleDefinition(const char * n, double mass, double charge) : _name(n), _mass(mass), _charge(charge) {}
  const std::string & GetParticleName() const { return _name; }
  double GetPDGMass() const { return _mass; }
  double GetPDGCharge() const { return _charge; }
private:
  std::string _name;
  double _mass, _charge;
};
#define G4STUB_PARTICLE(Class, Method, name, mass, charge) \
  class Class { public: static G4ParticleDefinition * Method() { static G4ParticleDefinition d(name, mass, charge); return &d; } \
                        static G4ParticleDefinition * Definition() { return Method(); } };
