#pragma once
#include "globals.hh"
using CLHEP::MeV; using CLHEP::keV; using CLHEP::mm; using CLHEP::cm; using CLHEP::second; using CLHEP::ns; using CLHEP::degree;
