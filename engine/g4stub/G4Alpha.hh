#pragma once
#include "G4ParticleDefinition.hh"
G4STUB_PARTICLE(G4Alpha, AlphaDefinition, "alpha", 3727.379, 2)
