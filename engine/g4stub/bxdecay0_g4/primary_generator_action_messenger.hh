// stand-in that shadows the extension's UI messenger (G4UImessenger family is not needed by the property)
#pragma once
namespace bxdecay0_g4 {
class PrimaryGeneratorAction;
class PrimaryGeneratorActionMessenger {
public:
  PrimaryGeneratorActionMessenger(PrimaryGeneratorAction *) {}
  ~PrimaryGeneratorActionMessenger() {}
};
}
