#pragma once
namespace bxdecay0_g4 {
class UniquePointVertexGenerator;
class UniquePointVertexGeneratorMessenger {
public:
  UniquePointVertexGeneratorMessenger(UniquePointVertexGenerator *) {}
  ~UniquePointVertexGeneratorMessenger() {}
};
}
