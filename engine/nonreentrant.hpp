// nonreentrant.hpp — libc functions whose result or progress lives in hidden process-wide state (POSIX marks them
// "need not be thread-safe"). A library that claims independent instances may be used from different threads must not
// reach them from two threads without synchronisation. Both C12 harnesses interpose them by link-time definition in
// the executable (the library's calls go through the PLT and land here):
//   - the scheduler harness makes every call a scheduling point (NR_HOOK = sch::point), so that interleavings of e.g.
//     two tokenising loops are explored and show up in the differential oracle;
//   - the free-running ThreadSanitizer harness turns every call into a write to an instrumented proxy variable, so that
//     two unsynchronised callers are reported as a race whatever the actual timing.
// The including file defines NR_HOOK(index) before including this header.
#pragma once
#include <clocale>
#include <cstdlib>
#include <cstring>
#include <ctime>
#include <dlfcn.h>

#define NR_REAL(name, type) static auto real_fn = (type)dlsym(RTLD_NEXT, name)

extern "C" char * strtok(char * s, const char * d) noexcept
{
  NR_REAL("strtok", char * (*)(char *, const char *));
  NR_HOOK(0);
  return real_fn(s, d);
}
extern "C" int rand(void) noexcept
{
  NR_REAL("rand", int (*)(void));
  NR_HOOK(1);
  return real_fn();
}
extern "C" void srand(unsigned s) noexcept
{
  NR_REAL("srand", void (*)(unsigned));
  NR_HOOK(1);
  real_fn(s);
}
extern "C" struct tm * localtime(const time_t * t) noexcept
{
  NR_REAL("localtime", struct tm * (*)(const time_t *));
  NR_HOOK(2);
  return real_fn(t);
}
extern "C" struct tm * gmtime(const time_t * t) noexcept
{
  NR_REAL("gmtime", struct tm * (*)(const time_t *));
  NR_HOOK(2);
  return real_fn(t);
}
extern "C" char * ctime(const time_t * t) noexcept
{
  NR_REAL("ctime", char * (*)(const time_t *));
  NR_HOOK(2);
  return real_fn(t);
}
extern "C" char * asctime(const struct tm * t) noexcept
{
  NR_REAL("asctime", char * (*)(const struct tm *));
  NR_HOOK(2);
  return real_fn(t);
}
extern "C" double drand48(void) noexcept
{
  NR_REAL("drand48", double (*)(void));
  NR_HOOK(3);
  return real_fn();
}
extern "C" long lrand48(void) noexcept
{
  NR_REAL("lrand48", long (*)(void));
  NR_HOOK(3);
  return real_fn();
}
extern "C" long mrand48(void) noexcept
{
  NR_REAL("mrand48", long (*)(void));
  NR_HOOK(3);
  return real_fn();
}
extern "C" void srand48(long s) noexcept
{
  NR_REAL("srand48", void (*)(long));
  NR_HOOK(3);
  real_fn(s);
}
extern "C" char * setlocale(int c, const char * l) noexcept
{
  NR_REAL("setlocale", char * (*)(int, const char *));
  // a query (l == nullptr) only reads; libstdc++ issues such queries when formatting numbers
  if (l) NR_HOOK(4);
  return real_fn(c, l);
}
