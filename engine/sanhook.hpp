// sanhook.hpp — UndefinedBehaviorSanitizer reports as data (C08 and the drivers it borrows). With GCC's separate
// libubsan the reports go to stderr whatever log_path says, and the harnesses silence stderr (the library is chatty):
// the runtime's weak report hook is defined here instead; each report is counted and appended, one line per distinct
// source location, to the file named by VERIF_SAN_LOG.
#pragma once
#include <cstdio>
#include <cstdlib>
#include <cstring>
#include <fcntl.h>
#include <unistd.h>
#if defined(__SANITIZE_ADDRESS__) || defined(VERIF_UBSAN_HOOK)
extern "C" void __ubsan_get_current_report_data(const char ** kind, const char ** message, const char ** file, unsigned * line, unsigned * col, char ** addr);
static volatile long g_ubsan_reports = 0;
static void (*g_ubsan_callback)() = nullptr; // set by a harness that attributes reports to executions
extern "C" void __ubsan_on_report()
{
  g_ubsan_reports = g_ubsan_reports + 1;
  if (g_ubsan_callback) g_ubsan_callback();
  const char *kind = "", *msg = "", *file = "";
  unsigned line = 0, col = 0;
  char * addr = nullptr;
  __ubsan_get_current_report_data(&kind, &msg, &file, &line, &col, &addr);
  static char seen[64][160];
  static int nseen = 0;
  char key[160];
  snprintf(key, sizeof key, "%s:%u", file ? file : "?", line);
  for (int k = 0; k < nseen; k++)
    if (!strcmp(seen[k], key)) return;
  if (nseen < 64) strcpy(seen[nseen++], key);
  const char * path = getenv("VERIF_SAN_LOG");
  if (!path) return;
  int fd = open(path, O_WRONLY | O_CREAT | O_APPEND, 0644);
  if (fd < 0) return;
  char buf[700];
  int n = snprintf(buf, sizeof buf, "UBSAN %s: %s at %s:%u\n", kind ? kind : "?", msg ? msg : "", file ? file : "?", line);
  if (n > 0) { ssize_t w = write(fd, buf, (size_t)n < sizeof buf ? (size_t)n : sizeof buf - 1); (void)w; }
  close(fd);
}
#endif
