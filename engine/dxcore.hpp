// dxcore.hpp — shared by the explorer (checks/dx.cc) and the other model-vs-port harnesses:
// configuration, event record, the model side (transpiled Fortran), the port side (genbbsub or
// decay0_generator), the C01/C02 comparison and the C03/C04 invariants.
#pragma once
#include <ref.h>
#include <bxdecay0/genbbsub.h>
#include <bxdecay0/bb.h>
#include <bxdecay0/event.h>
#include <bxdecay0/i_random.h>
#include <bxdecay0/decay0_generator.h>
#include <bxdecay0/bb_utils.h>
#include "stream.hpp"
#include <algorithm>
#include <link.h>
#include <chrono>
#include <cmath>
#include <csignal>
#include <cstdio>
#include <cstdlib>
#include <cstring>
#include <deque>
#include <fstream>
#include <iostream>
#include <map>
#include <set>
#include <sstream>
#include <string>
#include <sys/wait.h>
#include <unistd.h>
#include <vector>

using vx::Forced;

// ---------------------------------------------------------------- sanitizer hooks (C08)
#include "sanhook.hpp"
static volatile long g_san_reports = 0;
static std::string g_san_last;
#if defined(__SANITIZE_ADDRESS__)
static void dx_ubsan_seen() { g_san_reports = g_san_reports + 1; }
static const bool g_ubsan_cb_installed = ((g_ubsan_callback = dx_ubsan_seen), true);
#endif
extern "C" {
#if defined(__SANITIZE_ADDRESS__)
void __asan_on_error() { g_san_reports++; g_san_last = "asan"; }
const char * __asan_default_options() { return "halt_on_error=0:detect_leaks=0:allocator_may_return_null=1:print_summary=1"; }
const char * __ubsan_default_options() { return "halt_on_error=0:print_stacktrace=0"; }
#endif
}

// ---------------------------------------------------------------- configuration
struct Config {
  std::string cat;  // "bkg" | "dbd"
  std::string name;
  int level = 0, mode = 0;
  double e1 = -1, e2 = -1; // window (MeV); a negative bound is absent (one-sided window: the other side defaults to 0 / 4.3)
  std::string pre;         // key of a predecessor configuration initialised first on the same objects (dx)
  std::string pre_raw;     // its text "cat name level mode e1 e2" (replay files)
  std::string hist;        // raw text "cat name forced [START forced]" of a history shot on another working set before every port shot (dx)
  bool dbd() const { return cat == "dbd"; }
  bool window() const { return e1 >= 0 || e2 >= 0; }
  double lo() const { return e1 >= 0 ? e1 : 0.0; }
  double hi() const { return e2 >= 0 ? e2 : 4.3; }
  std::string key() const
  {
    char b[256];
    if (dbd()) {
      if (window()) snprintf(b, sizeof b, "dbd:%s:l%d:m%d:w%g-%g", name.c_str(), level, mode, e1, e2);
      else snprintf(b, sizeof b, "dbd:%s:l%d:m%d", name.c_str(), level, mode);
    } else snprintf(b, sizeof b, "bkg:%s", name.c_str());
    if (!pre.empty()) return std::string(b) + ":after:" + pre;
    if (!hist.empty()) {
      unsigned h = 2166136261u;
      for (char ch : hist) h = (h ^ (unsigned char)ch) * 16777619u;
      char hb[16];
      snprintf(hb, sizeof hb, "%08x", h);
      std::istringstream is(hist);
      std::string hc, hn;
      is >> hc >> hn;
      return std::string(b) + ":hist:" + hn + ":" + hb;
    }
    return b;
  }
};

struct Ev {
  std::vector<int> code;
  std::vector<double> t, px, py, pz;
  size_t ndraws = 0;
  bool horizon = false, threw = false;
  std::string what;
  double evtime = 0;
  std::string label;
  int err = 0;
};

static uint64_t PHASE = 1;
static size_t HORIZON = 100000;
struct HorizonHit {};

// chi_GTw, chi_Fw, chi'_GT, chi'_F, chi'_T, chi'_P, chi'_R. Two sets: with chi'_R != 0 the 1/r^2 terms dominate and cancel between
// a_eta and b_eta (the angular coefficient hardly depends on the Coulomb term rksi); with chi'_R = 0 it depends on it strongly
// (third set: small chi'_P and chi'_R, neither dominating - the spectrum SHAPE then depends on the nuclear radius; with chi'_R ~ 1
//  a wrong radius only rescales the whole spectrum and cancels in every rejection test)
static const double NME_SETS[3][7] = {{0.9, -0.15, 1.1, -0.25, 0.07, 0.4, 0.8}, {0.9, -0.15, 1.1, -0.25, 0.07, 0.4, 0.0}, {0.9, -0.15, 1.1, -0.25, 0.07, 0.10, 0.02}};
static int NME_SET = 0;
#define NME NME_SETS[NME_SET]

// ---------------------------------------------------------------- model side
static double ref_source(size_t pos, void * c) { return ((vx::Source *)c)->at(pos); }

struct RefSide {
  bool available = false;
  d0ref::fstr chn{16};
  int i2 = 2, lev = 0, mode = 0;
  int init_ier = -1;
  size_t init_draws = 0;
  double toall = 0;
  double qbb = 0;
  int init(const Config & c, uint64_t phase)
  {
    d0ref::init_blockdata();
    chn.assign(d0ref::FS(c.name.c_str()));
    i2 = c.dbd() ? 1 : 2;
    lev = c.dbd() ? c.level : 0;
    mode = c.dbd() ? c.mode : 0;
    if (c.dbd()) {
      d0ref::g.c_enrange.m0 = c.lo();
      d0ref::g.c_enrange.m1 = c.hi();
      // mode 18 needs the seven NMEs (the dialog reads them from a file): same fixed set on both sides
      auto & n = d0ref::g.c_eta_nme;
      n.m0 = NME[0]; n.m1 = NME[1]; n.m2 = NME[2]; n.m3 = NME[3]; n.m4 = NME[4]; n.m5 = NME[5]; n.m6 = NME[6];
    }
    Forced none;
    vx::Source s;
    s.forced = &none;
    s.phase = phase ^ 0x5bd1e995ULL;
    s.squeeze = false;
    d0ref::mon.reset();
    d0ref::mon.source = ref_source;
    d0ref::mon.ctx = &s;
    d0ref::mon.horizon = 2000000;
    d0ref::mon.log_cmps = false;
    int ist = -1, ier = 0;
    try {
      d0ref::f_genbbsub(i2, chn, lev, mode, ist, ier);
    } catch (d0ref::HorizonExceeded &) {
      ier = -99;
    } catch (std::exception & e) {
      ier = -98;
    }
    init_ier = ier;
    init_draws = d0ref::mon.next;
    toall = d0ref::g.c_enrange.m2;
    available = (ier == 0);
    return ier;
  }
  // the single-call form of the entry point (istart = 0: initialise and generate one event in one call), on a model that was
  // not initialised before; the deviates are those of the (unsqueezed) initialisation stream
  Ev one_call(const Config & c, uint64_t phase)
  {
    d0ref::init_blockdata();
    chn.assign(d0ref::FS(c.name.c_str()));
    i2 = c.dbd() ? 1 : 2;
    lev = c.dbd() ? c.level : 0;
    mode = c.dbd() ? c.mode : 0;
    if (c.dbd()) {
      d0ref::g.c_enrange.m0 = c.lo();
      d0ref::g.c_enrange.m1 = c.hi();
      auto & n = d0ref::g.c_eta_nme;
      n.m0 = NME[0]; n.m1 = NME[1]; n.m2 = NME[2]; n.m3 = NME[3]; n.m4 = NME[4]; n.m5 = NME[5]; n.m6 = NME[6];
    }
    Forced none;
    vx::Source s;
    s.forced = &none;
    s.phase = phase ^ 0x5bd1e995ULL;
    s.squeeze = false;
    d0ref::mon.reset();
    d0ref::mon.source = ref_source;
    d0ref::mon.ctx = &s;
    d0ref::mon.horizon = 2000000;
    d0ref::mon.log_cmps = false;
    int ist = 0, ier = 0;
    Ev e;
    try {
      d0ref::f_genbbsub(i2, chn, lev, mode, ist, ier);
    } catch (d0ref::HorizonExceeded &) {
      e.horizon = true;
    } catch (std::exception & x) {
      e.threw = true;
      e.what = std::string("model fault: ") + x.what();
    }
    e.err = ier;
    auto & ge = d0ref::g.c_genevent;
    int np = ge.m1;
    double t = 0;
    for (int k = 1; k <= np && k <= 100; k++) {
      t += ge.m4(k);
      e.code.push_back(ge.m2(k));
      e.t.push_back(t);
      e.px.push_back(ge.m3(1, k));
      e.py.push_back(ge.m3(2, k));
      e.pz.push_back(ge.m3(3, k));
    }
    e.ndraws = d0ref::mon.next;
    return e;
  }
  Ev shot(const Forced & f, bool logc = false, int logdraw = -1)
  {
    vx::Source s;
    s.forced = &f;
    s.phase = PHASE;
    d0ref::mon.reset();
    d0ref::mon.source = ref_source;
    d0ref::mon.ctx = &s;
    d0ref::mon.horizon = HORIZON;
    d0ref::mon.log_cmps = logc;
    d0ref::mon.log_draw = logdraw;
    int ist = 1, ier = 0;
    Ev e;
    try {
      d0ref::f_genbbsub(i2, chn, lev, mode, ist, ier);
    } catch (d0ref::HorizonExceeded &) {
      e.horizon = true;
    } catch (std::exception & x) {
      e.threw = true;
      e.what = std::string("model fault: ") + x.what();
    }
    e.err = ier;
    auto & ge = d0ref::g.c_genevent;
    int np = ge.m1;
    double t = 0;
    for (int k = 1; k <= np && k <= 100; k++) {
      t += ge.m4(k);
      e.code.push_back(ge.m2(k));
      e.t.push_back(t);
      e.px.push_back(ge.m3(1, k));
      e.py.push_back(ge.m3(2, k));
      e.pz.push_back(ge.m3(3, k));
    }
    e.ndraws = d0ref::mon.next;
    return e;
  }
};

// ---------------------------------------------------------------- port side
// address range of the shared object that holds the library (found through one of its symbols)
static int lib_range_cb(struct dl_phdr_info * info, size_t, void * data)
{
  uintptr_t * out = (uintptr_t *)data; // [0]=probe address, [1]=lo, [2]=hi
  for (int k = 0; k < info->dlpi_phnum; k++) {
    const auto & ph = info->dlpi_phdr[k];
    if (ph.p_type != PT_LOAD) continue;
    uintptr_t a = info->dlpi_addr + ph.p_vaddr, b = a + ph.p_memsz;
    if (out[0] >= a && out[0] < b) {
      // whole object: min/max over its PT_LOAD segments
      uintptr_t lo = ~(uintptr_t)0, hi = 0;
      for (int j = 0; j < info->dlpi_phnum; j++) {
        const auto & q = info->dlpi_phdr[j];
        if (q.p_type != PT_LOAD) continue;
        lo = std::min(lo, (uintptr_t)(info->dlpi_addr + q.p_vaddr));
        hi = std::max(hi, (uintptr_t)(info->dlpi_addr + q.p_vaddr + q.p_memsz));
      }
      out[1] = lo;
      out[2] = hi;
      return 1;
    }
  }
  return 0;
}
static void lib_range(uintptr_t & lo, uintptr_t & hi)
{
  uintptr_t d[3] = {(uintptr_t)(void *)&bxdecay0::genbbsub, 0, ~(uintptr_t)0};
  dl_iterate_phdr(lib_range_cb, d);
  lo = d[1];
  hi = d[2];
}

struct PortRand : bxdecay0::i_random {
  vx::Source s;
  size_t i = 0;
  size_t horizon = 100000;
  std::vector<uint32_t> * ctx = nullptr;
  double operator()() override
  {
    if (i >= horizon) throw HorizonHit();
    if (ctx) {
      // site context = return-address chain, eight frames deep (library and harness keep frame pointers): deep
      // enough to tell apart the call sites of the helpers (particle <- electron <- nucltransKLM <- nuclide scheme)
      // only frames inside the library count: harness frames above them depend on who called the shot
      static uintptr_t lib_lo = 0, lib_hi = 0;
      if (!lib_hi) lib_range(lib_lo, lib_hi);
      uint32_t h = 2166136261u;
      void ** fp = (void **)__builtin_frame_address(0);
      for (int d = 0; d < 10 && fp; d++) {
        uintptr_t ra = (uintptr_t)fp[1];
        if (ra < lib_lo || ra >= lib_hi) {
          if (d > 0) break;
        } else h = (h ^ (uint32_t)((ra - lib_lo) & 0xffffffffu)) * 16777619u;
        void ** nfp = (void **)fp[0];
        if (nfp <= fp || (uintptr_t)nfp - (uintptr_t)fp > (1u << 20)) break;
        fp = nfp;
      }
      ctx->push_back(h);
    }
    return s.at(i++);
  }
};

struct PortSide {
  bool via_gen = false;
  bxdecay0::bbpars pars;
  bxdecay0::decay0_generator gen;
  Config cfg;
  int init_err = -1;
  size_t init_draws = 0;
  std::string init_what;
  double toall = 0, qbb = 0, edlevel = 0, zdbb = 0, ek = 0;
  std::vector<uint32_t> ctx;
  int init(const Config & c, uint64_t phase)
  {
    cfg = c;
    Forced none;
    PortRand r;
    r.s.forced = &none;
    r.s.phase = phase ^ 0x5bd1e995ULL;
    r.s.squeeze = false;
    r.horizon = 2000000;
    int err = 0;
    try {
      if (via_gen) {
        gen.set_decay_category(c.dbd() ? bxdecay0::decay0_generator::DECAY_CATEGORY_DBD : bxdecay0::decay0_generator::DECAY_CATEGORY_BACKGROUND);
        gen.set_decay_isotope(c.name);
        if (c.dbd()) {
          gen.set_decay_dbd_level(c.level);
          gen.set_decay_dbd_mode((bxdecay0::dbd_mode_type)c.mode);
          if (c.window()) gen.set_decay_dbd_esum_range(c.e1 >= 0 ? c.e1 : std::numeric_limits<double>::quiet_NaN(), c.e2 >= 0 ? c.e2 : std::numeric_limits<double>::quiet_NaN());
        }
        gen.initialize(r);
      } else {
        bxdecay0::event ev;
        if (c.dbd()) {
          // (the working fields modebb / istartbb are genbbsub's own business, as in the Fortran: the caller only
          //  provides the NMEs and the energy-sum range)
          pars.chi_GTw = NME[0]; pars.chi_Fw = NME[1]; pars.chip_GT = NME[2]; pars.chip_F = NME[3]; pars.chip_T = NME[4]; pars.chip_P = NME[5]; pars.chip_R = NME[6];
          // the caller provides the energy-sum range at every initialisation (as the Fortran caller fills common/enrange/)
          pars.ebb1 = c.lo();
          pars.ebb2 = c.hi();
          bxdecay0::genbbsub(r, ev, 1, c.name, c.level, c.mode, -1, err, pars);
        } else {
          bxdecay0::genbbsub(r, ev, 2, c.name, -1, -1, -1, err, pars);
        }
      }
    } catch (HorizonHit &) {
      err = -99;
    } catch (std::exception & e) {
      err = -98;
      init_what = e.what();
    }
    init_err = err;
    init_draws = r.i;
    const bxdecay0::bbpars & p = via_gen ? gen.get_bb_params() : pars;
    toall = p.toallevents;
    qbb = p.Qbb;
    zdbb = p.Zdbb;
    ek = p.EK;
    edlevel = p.levelE / 1000.;
    return err;
  }
  // single-call form (istart = 0) on a working block of its own
  static Ev one_call(const Config & c, uint64_t phase)
  {
    Forced none;
    PortRand r;
    r.s.forced = &none;
    r.s.phase = phase ^ 0x5bd1e995ULL;
    r.s.squeeze = false;
    r.horizon = 2000000;
    bxdecay0::bbpars pars;
    bxdecay0::event ev;
    Ev e;
    int err = 0;
    try {
      if (c.dbd()) {
        pars.chi_GTw = NME[0]; pars.chi_Fw = NME[1]; pars.chip_GT = NME[2]; pars.chip_F = NME[3]; pars.chip_T = NME[4]; pars.chip_P = NME[5]; pars.chip_R = NME[6];
        pars.ebb1 = c.lo();
        pars.ebb2 = c.hi();
        bxdecay0::genbbsub(r, ev, 1, c.name, c.level, c.mode, 0, err, pars);
      } else {
        bxdecay0::genbbsub(r, ev, 2, c.name, -1, -1, 0, err, pars);
      }
    } catch (HorizonHit &) {
      e.horizon = true;
    } catch (std::exception & x) {
      e.threw = true;
      e.what = x.what();
    }
    e.err = err;
    for (auto & p : ev.get_particles()) {
      e.code.push_back((int)p.get_code());
      e.t.push_back(p.get_time());
      e.px.push_back(p.get_px());
      e.py.push_back(p.get_py());
      e.pz.push_back(p.get_pz());
    }
    e.evtime = ev.get_time();
    e.label = ev.get_generator();
    e.ndraws = r.i;
    return e;
  }
  Ev shot(const Forced & f, bool want_ctx = false)
  {
    PortRand r;
    r.s.forced = &f;
    r.s.phase = PHASE;
    r.horizon = HORIZON;
    ctx.clear();
    r.ctx = want_ctx ? &ctx : nullptr;
    bxdecay0::event ev;
    Ev e;
    int err = 0;
    try {
      if (via_gen) gen.shoot(r, ev);
      else if (cfg.dbd()) bxdecay0::genbbsub(r, ev, 1, cfg.name, cfg.level, cfg.mode, 1, err, pars);
      else bxdecay0::genbbsub(r, ev, 2, cfg.name, -1, -1, 1, err, pars);
    } catch (HorizonHit &) {
      e.horizon = true;
    } catch (std::exception & x) {
      e.threw = true;
      e.what = x.what();
    }
    e.err = err;
    for (auto & p : ev.get_particles()) {
      e.code.push_back((int)p.get_code());
      e.t.push_back(p.get_time());
      e.px.push_back(p.get_px());
      e.py.push_back(p.get_py());
      e.pz.push_back(p.get_pz());
    }
    e.evtime = ev.get_time();
    e.label = ev.get_generator();
    e.ndraws = r.i;
    return e;
  }
};

// ---------------------------------------------------------------- comparison (C01/C02 oracle)
static const double TOL = 1e-6;

// inside an internal pair the port emits e-,e+ and the reference e+,e- (documented): swap back
static void canon_pairs(Ev & e)
{
  for (size_t k = 0; k + 1 < e.code.size(); k++) {
    if (e.code[k] == 3 && e.code[k + 1] == 2 && e.px[k] == e.px[k + 1] && e.py[k] == e.py[k + 1] && e.pz[k] == e.pz[k + 1]
        && e.t[k] == e.t[k + 1]) {
      std::swap(e.code[k], e.code[k + 1]);
      k++;
    }
  }
}

static double kin(int code, double px, double py, double pz)
{
  double p2 = px * px + py * py + pz * pz;
  double m = (code == 2 || code == 3) ? 0.51099906 : (code == 47 ? 3727.417 : 0.0);
  if (m == 0) return std::sqrt(p2);
  return std::sqrt(p2 + m * m) - m;
}

static bool part_close(const Ev & a, size_t i, const Ev & b, size_t j, std::string & why)
{
  double pm = std::sqrt(a.px[i] * a.px[i] + a.py[i] * a.py[i] + a.pz[i] * a.pz[i]) + 1e-30;
  if (std::fabs(a.px[i] - b.px[j]) > TOL * pm || std::fabs(a.py[i] - b.py[j]) > TOL * pm || std::fabs(a.pz[i] - b.pz[j]) > TOL * pm) {
    why = "momentum of particle " + std::to_string(i);
    return false;
  }
  if (std::fabs(a.t[i] - b.t[j]) > TOL * std::fabs(a.t[i]) + 1e-30) {
    why = "time of particle " + std::to_string(i);
    return false;
  }
  return true;
}

// returns "" if equal up to the documented differences
static std::string compare(const Config & c, const Ev & ref, Ev port)
{
  std::string why;
  if (ref.horizon != port.horizon) return "one side hit the draw horizon";
  if (ref.horizon) return "";
  if (port.threw) return "port threw: " + port.what;
  if (ref.threw) return "MODELFAULT " + ref.what;
  if (ref.err != port.err) return "error code differs";
  bool y90pair = (!c.dbd() && c.name == "Y90" && std::count(ref.code.begin(), ref.code.end(), 2) > 0);
  if (y90pair) {
    // documented: revised positron spectrum of the internal pair in the 1761 keV branch
    if (ref.code.size() != 3 || port.code.size() != 3) return "Y90 pair branch: particle count";
    if (ref.code[0] != 3 || port.code[0] != 3) return "Y90 pair branch: first particle";
    if (!part_close(ref, 0, port, 0, why)) return "Y90 pair branch: beta " + why;
    if (!(port.code[1] == 3 && port.code[2] == 2)) return "Y90 pair branch: species";
    double k1 = kin(3, port.px[1], port.py[1], port.pz[1]), k2 = kin(2, port.px[2], port.py[2], port.pz[2]);
    if (std::fabs(k1 + k2 - 0.739) > 1e-9) return "Y90 pair branch: energy sum";
    double p1 = std::sqrt(port.px[1] * port.px[1] + port.py[1] * port.py[1] + port.pz[1] * port.pz[1]);
    double p2 = std::sqrt(port.px[2] * port.px[2] + port.py[2] * port.py[2] + port.pz[2] * port.pz[2]);
    double dot = port.px[1] * port.px[2] + port.py[1] * port.py[2] + port.pz[1] * port.pz[2];
    if (p1 > 1e-9 && p2 > 1e-9 && std::fabs(dot / (p1 * p2) - 1) > 1e-9) return "Y90 pair branch: direction";
    // the revised branch draws its rejection loop before the emission time, so the time deviate sits at
    // another position than in the reference: only the structure of the times is comparable
    if (!(port.t[1] == port.t[2] && port.t[1] >= port.t[0] && ref.t[1] == ref.t[2])) return "Y90 pair branch: time";
    return "";
  }
  canon_pairs(port);
  if (ref.code.size() != port.code.size()) return "particle count " + std::to_string(ref.code.size()) + " vs " + std::to_string(port.code.size());
  if (ref.code != port.code) return "species/order";
  for (size_t k = 0; k < ref.code.size(); k++)
    if (!part_close(ref, k, port, k, why)) return why;
  if (ref.ndraws != port.ndraws) return "deviates consumed " + std::to_string(ref.ndraws) + " vs " + std::to_string(port.ndraws);
  if (port.evtime != 0.0) return "event reference time not 0";
  return "";
}

// ---------------------------------------------------------------- invariants (C03/C04 oracles)
static const std::set<int> NEUTRINOLESS = {1, 2, 3, 7, 9, 11, 17, 18, 20};
static double E_TOL = 0.003;

struct InvStats {
  double max_excess = -1e9, max_deficit = -1e9; // visible - Q
  size_t max_draws = 0;
  double max_kin = 0;
  int max_np = 0;
};

static int n_primary(int mode)
{
  switch (mode) {
  case 9: return 2;  // e+ + X-ray
  case 10: return 2; // e+ + X-ray
  case 11: return 3; // gamma + 2 X-ray
  case 12: return 2; // 2 X-ray
  case 20: return 4;
  default: return 2;
  }
}

static std::string check_c04(const Config & c, const Ev & e, InvStats & st)
{
  if (e.horizon) return "draw horizon exceeded (livelock or acceptance region below stream resolution)";
  if (e.threw) return "shot threw: " + e.what;
  if (e.err != 0) return "shot returned error";
  size_t n = e.code.size();
  st.max_draws = std::max(st.max_draws, e.ndraws);
  st.max_np = std::max(st.max_np, (int)n);
  if (n < 1) return "no particle";
  if (n > 100) return "more than 100 particles";
  double last = 0;
  for (size_t k = 0; k < n; k++) {
    int cd = e.code[k];
    if (!(cd == 1 || cd == 2 || cd == 3 || cd == 47)) return "species code " + std::to_string(cd);
    if (!std::isfinite(e.px[k]) || !std::isfinite(e.py[k]) || !std::isfinite(e.pz[k])) return "non-finite momentum";
    double T = kin(cd, e.px[k], e.py[k], e.pz[k]);
    st.max_kin = std::max(st.max_kin, T);
    if (!(T <= 12.0)) return "kinetic energy above 12 MeV";
    if (!std::isfinite(e.t[k]) || e.t[k] < 0) return "non-finite or negative time";
    if (e.t[k] < last) return "times decrease along the list";
    last = e.t[k];
  }
  if (!(e.evtime == 0.0)) return "event reference time not 0";
  if (e.label != c.name) return "generator label '" + e.label + "'";
  return "";
}

static bool has_alpha_chain(const Config & c) { return c.name == "Bi214" || c.name == "Pb214" || c.name == "Po218" || c.name == "Rn222"; }

static std::string check_c03(const Config & c, const Ev & e, const PortSide & P, InvStats & st)
{
  if (!c.dbd() || e.horizon || e.threw || e.err) return "";
  size_t n = e.code.size();
  size_t upto = n;
  if (has_alpha_chain(c)) upto = std::min(n, (size_t)n_primary(c.mode));
  double vis = 0;
  for (size_t k = 0; k < upto; k++) {
    vis += kin(e.code[k], e.px[k], e.py[k], e.pz[k]);
    if (e.code[k] == 2) vis += 1.022;
  }
  double Q = P.qbb;
  double d = vis - Q;
  if (NEUTRINOLESS.count(c.mode)) {
    st.max_excess = std::max(st.max_excess, d);
    st.max_deficit = std::max(st.max_deficit, -d);
    if (std::fabs(d) > E_TOL) {
      char b[128];
      snprintf(b, sizeof b, "neutrinoless: visible %.6f vs Q %.6f", vis, Q);
      return b;
    }
  } else {
    st.max_excess = std::max(st.max_excess, d);
    if (d > E_TOL) {
      char b[128];
      snprintf(b, sizeof b, "visible %.6f exceeds Q %.6f", vis, Q);
      return b;
    }
  }
  if (c.window() && n >= 2) {
    double s = kin(e.code[0], e.px[0], e.py[0], e.pz[0]) + kin(e.code[1], e.px[1], e.py[1], e.pz[1]);
    if (c.mode == 10) s = kin(e.code[0], e.px[0], e.py[0], e.pz[0]); // 2nuKb+: one lepton (the second particle is the K X-ray)
    if (s < (double)(float)c.lo() - 1e-9 || s > (double)(float)c.hi() + 1e-9) {
      char b[128];
      snprintf(b, sizeof b, "lepton energy sum %.6f outside window [%g,%g]", s, c.e1, c.e2);
      return b;
    }
  }
  return "";
}

