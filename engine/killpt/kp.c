/* kp.c — LD_PRELOAD kill-point shim (DESIGN 1.6 E6): numbers the write()/writev() calls that go to *.d0t / *.d0c
 * files; with KP_KILL_AT=k the process is killed (_exit(137)) immediately before write k; with KP_TORN=n the first n
 * bytes (or half of the buffer if n<0) of write k are written before the kill. KP_COUNT_FILE receives the running
 * count, one line "<index> <file-suffix> <bytes>" per write. */
#define _GNU_SOURCE
#include <dlfcn.h>
#include <stdio.h>
#include <stdlib.h>
#include <string.h>
#include <sys/uio.h>
#include <unistd.h>
static int count = 0;
static const char * target(int fd)
{
  static char b[600];
  char p[64];
  snprintf(p, sizeof p, "/proc/self/fd/%d", fd);
  ssize_t n = readlink(p, b, sizeof b - 1);
  if (n <= 0) return 0;
  b[n] = 0;
  size_t l = strlen(b);
  if (l > 4 && (!strcmp(b + l - 4, ".d0t") || !strcmp(b + l - 4, ".d0c"))) return b + l - 4;
  return 0;
}
static void note(const char * suffix, size_t n)
{
  const char * c = getenv("KP_COUNT_FILE");
  if (!c) return;
  FILE * f = fopen(c, "a");
  if (!f) return;
  fprintf(f, "%d %s %zu\n", count, suffix, n);
  fclose(f);
}
ssize_t write(int fd, const void * buf, size_t n)
{
  static ssize_t (*real)(int, const void *, size_t);
  if (!real) real = dlsym(RTLD_NEXT, "write");
  const char * t = target(fd);
  if (t) {
    count++;
    const char * k = getenv("KP_KILL_AT");
    if (k && atoi(k) == count) {
      const char * tr = getenv("KP_TORN");
      if (tr) {
        long m = atol(tr);
        if (m < 0) m = (long)(n / 2);
        if ((size_t)m > n) m = (long)n;
        if (m > 0) real(fd, buf, (size_t)m);
      }
      _exit(137);
    }
    note(t, n);
  }
  return real(fd, buf, n);
}
ssize_t writev(int fd, const struct iovec * iov, int cnt)
{
  static ssize_t (*real)(int, const struct iovec *, int);
  if (!real) real = dlsym(RTLD_NEXT, "writev");
  const char * t = target(fd);
  if (t) {
    count++;
    const char * k = getenv("KP_KILL_AT");
    if (k && atoi(k) == count) {
      const char * tr = getenv("KP_TORN");
      if (tr && cnt > 0) {
        long m = atol(tr);
        if (m < 0) m = (long)(iov[0].iov_len / 2);
        if ((size_t)m > iov[0].iov_len) m = (long)iov[0].iov_len;
        static ssize_t (*rw)(int, const void *, size_t);
        if (!rw) rw = dlsym(RTLD_NEXT, "write");
        if (m > 0) rw(fd, iov[0].iov_base, (size_t)m);
      }
      _exit(137);
    }
    size_t tot = 0;
    for (int i = 0; i < cnt; i++) tot += iov[i].iov_len;
    note(t, tot);
  }
  return real(fd, iov, cnt);
}
