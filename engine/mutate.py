"""Bounded exhaustive mutation of small seed files (DESIGN 1.6 E7): every byte-prefix truncation, every token replaced
by every member of an adversarial alphabet, every integer token by every integer in -2..50, every line deleted / duplicated, one extra token per line, one extra
line; pairs of token replacements in the thorough tier (fixed order, so that a covered prefix can be stated)."""
import itertools, re

ALPHABET = ['', '-1', '0', 'nan', 'inf', '1e999', '4294967295', '99999999999999999999', '2147483647', 'x', '^', '^99', '^10', '!1', '#', '\n', '1e-320', '-0.0']


def tokens(text):
    return [(m.start(), m.end()) for m in re.finditer(r'\S+', text)]


def mutants(text, pairs=False, max_prefix=4000, int_sweep=True):
    seen = set()

    def emit(tag, t):
        if t != text and t not in seen:
            seen.add(t)
            return [(tag, t)]
        return []
    out = []
    for k in range(0, min(len(text), max_prefix)):
        out += emit('prefix%d' % k, text[:k])
    toks = tokens(text)
    for i, (a, b) in enumerate(toks):
        for r in ALPHABET:
            out += emit('tok%d=%r' % (i, r), text[:a] + r + text[b:])
        # integer tokens (identifiers, counts, enumeration values): every small integer, so that each bound of each
        # enumeration or count check is crossed by exactly one
        if int_sweep and re.fullmatch(r'-?\d+', text[a:b]):
            for v in range(-2, 51):
                out += emit('tok%d=%d' % (i, v), text[:a] + str(v) + text[b:])
        out += emit('tok%d+dup' % i, text[:b] + ' ' + text[a:b] + text[b:])
        # equal neighbours (degenerate ranges, repeated values): the token takes the value of the previous / next one
        if i > 0:
            out += emit('tok%d=prev' % i, text[:a] + text[toks[i - 1][0]:toks[i - 1][1]] + text[b:])
        if i + 1 < len(toks):
            out += emit('tok%d=next' % i, text[:a] + text[toks[i + 1][0]:toks[i + 1][1]] + text[b:])
    lines = text.split('\n')
    for i in range(len(lines)):
        out += emit('line%d-del' % i, '\n'.join(lines[:i] + lines[i + 1:]))
        out += emit('line%d-dup' % i, '\n'.join(lines[:i + 1] + lines[i:]))
        out += emit('line%d+tok' % i, '\n'.join(lines[:i] + [lines[i] + ' 0.5'] + lines[i + 1:]))
    if pairs:
        small = ['', '-1', 'nan', '99999999999999999999', 'x', '2147483647']
        for (i, (a, b)), (j, (c, d)) in itertools.combinations(list(enumerate(toks)), 2):
            for r1 in small:
                for r2 in small:
                    out += emit('tok%d=%r,tok%d=%r' % (i, r1, j, r2), text[:a] + r1 + text[b:c] + r2 + text[d:])
    return out
