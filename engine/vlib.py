"""Shared plumbing of the /verif checks: builds, evidence files, known findings, VIOLATION lines."""
import json, os, re, subprocess, sys, time, hashlib

VERIF = os.path.dirname(os.path.dirname(os.path.abspath(__file__)))
REPO = os.environ.get('VERIF_REPO', '/repo')
CACHE = os.environ.get('VERIF_CACHE', os.path.join(VERIF, '.cache'))
SEED = int(os.environ.get('VERIF_SEED', '1') or '1')

LEVELS = {
    'C01': 'model_checking', 'C02': 'model_checking', 'C03': 'exploration', 'C04': 'exploration',
    'C05': 'exploration', 'C06': 'model_checking', 'C07': 'exploration', 'C08': 'exploration',
    'C09': 'model_checking', 'C10': 'exploration', 'C11': 'model_checking', 'C12': 'model_checking',
    'C13': 'fault_enumeration', 'C14': 'exploration', 'C15': 'fault_enumeration', 'C16': 'exploration',
    'C17': 'exploration',
}


def sh(cmd, **kw):
    return subprocess.run(cmd, shell=isinstance(cmd, str), stdout=subprocess.PIPE, stderr=subprocess.PIPE, text=True, **kw)


def build_lib(variant='plain'):
    r = sh([os.path.join(VERIF, 'tools/buildlib.sh'), variant])
    if r.returncode != 0:
        sys.stderr.write(r.stderr)
        raise SystemExit('BUILD-ERROR: /repo does not build (variant %s)' % variant)
    return r.stdout.strip().splitlines()[-1]


def build_ref():
    r = sh([os.path.join(VERIF, 'tools/buildref.sh')])
    if r.returncode != 0:
        sys.stderr.write(r.stderr)
        raise SystemExit('BUILD-ERROR: reference model does not build')
    return r.stdout.strip().splitlines()[-1]


def build_harness(src, variant='plain', extra=()):
    r = sh([os.path.join(VERIF, 'tools/buildharness.sh'), os.path.join(VERIF, src), variant] + list(extra))
    if r.returncode != 0:
        sys.stderr.write(r.stderr)
        raise SystemExit('BUILD-ERROR: harness %s does not build (variant %s)' % (src, variant))
    return r.stdout.strip().splitlines()[-1]


def scratch(name):
    """per-run scratch directory under .cache/run, removed when the check exits (VERIF_KEEP=1 keeps it)"""
    import atexit, shutil
    d = os.path.join(CACHE, 'run', '%s-%d' % (name, os.getpid()))
    shutil.rmtree(d, ignore_errors=True)
    os.makedirs(d, exist_ok=True)
    if not os.environ.get('VERIF_KEEP'):
        atexit.register(shutil.rmtree, d, True)
    return d


def ref_sha():
    p = os.path.join(REPO, 'resources/code/decay0/decay0_2020-04-20.for')
    return hashlib.sha256(open(p, 'rb').read()).hexdigest()


class Findings:
    """known_findings.txt: lines
         finding: property=<id> key=<regex over violation keys> :: <what fails>
         fixed: property=<id> <commit> <what failed>
       A 'fixed' line suppresses nothing."""

    def __init__(self):
        self.items = []
        p = os.path.join(VERIF, 'known_findings.txt')
        if os.path.exists(p):
            for ln in open(p):
                ln = ln.strip()
                m = re.match(r'^finding:\s+property=(\S+)\s+key=(\S+)\s+::\s+(.*)$', ln)
                if m:
                    self.items.append((m.group(1), re.compile('^' + m.group(2) + '$'), m.group(3)))

    def match(self, prop, key):
        for (p, rx, what) in self.items:
            if p == prop and rx.match(key):
                return what
        return None


class Report:
    """Collects violations of one check run, prints the interface lines, writes the evidence file."""

    def __init__(self, prop, tier):
        self.prop = prop
        self.tier = tier
        self.t0 = time.time()
        self.findings = Findings()
        self.violations = []  # (key, text, replay_payload)
        self.known = {}       # what -> count
        self.coverage = {}
        self.assumptions = []
        import glob
        for f in glob.glob(os.path.join(VERIF, 'replays', '%s_*' % prop)):
            try: os.remove(f)
            except OSError: pass

    def violation(self, key, text, replay=None):
        """key identifies the failing input/call site/history."""
        what = self.findings.match(self.prop, key)
        if what is not None:
            self.known.setdefault(what, []).append(key)
            return False
        self.violations.append((key, text, replay))
        return True

    def finish(self):
        os.makedirs(os.path.join(VERIF, 'evidence'), exist_ok=True)
        os.makedirs(os.path.join(VERIF, 'replays'), exist_ok=True)
        for what, keys in self.known.items():
            print('KNOWN-FINDING: property=%s %s (%d failing inputs, e.g. %s)' % (self.prop, what, len(keys), keys[0]))
        nv = 0
        seen = set()
        for (key, text, replay) in self.violations:
            nv += 1
            if nv > 25:
                continue
            safe = re.sub(r'[^A-Za-z0-9_.+-]', '_', key)[:80]
            path = os.path.join(VERIF, 'replays', '%s_%s.replay' % (self.prop, safe))
            if path in seen:
                path = path[:-7] + '_%d.replay' % nv
            seen.add(path)
            with open(path, 'w') as f:
                f.write(replay if replay is not None else json.dumps({'property': self.prop, 'key': key, 'what': text}, indent=1) + '\n')
            print('VIOLATION property=%s replay=%s' % (self.prop, path))
            print('  key=%s :: %s' % (key, text))
        if nv > 25:
            print('  ... %d further violations not written out' % (nv - 25))
        ev = {
            'property_id': self.prop,
            'tier': self.tier,
            'seed': SEED,
            'level': LEVELS[self.prop],
            'coverage': self.coverage,
            'assumptions': self.assumptions,
            'wall_s': round(time.time() - self.t0, 2),
            'violations': nv,
            'known_findings_hit': {k: len(v) for k, v in self.known.items()},
        }
        with open(os.path.join(VERIF, 'evidence', '%s.json' % self.prop), 'w') as f:
            json.dump(ev, f, indent=1)
            f.write('\n')
        cov = self.coverage
        print('%s %s: %s violations=%d known=%d wall=%.1fs' % (
            self.prop, self.tier,
            ' '.join('%s=%s' % (k, cov[k]) for k in ('states', 'transitions', 'evaluations', 'distinct_nontrivial', 'traces_validated_against_impl', 'exhaustive') if k in cov),
            nv, sum(len(v) for v in self.known.values()), time.time() - self.t0))
        return 1 if nv else 0


def read_jsonl(path):
    out = []
    for ln in open(path):
        ln = ln.strip()
        if ln:
            out.append(json.loads(ln))
    return out


def bkg_names():
    return open(os.path.join(REPO, 'resources/description/background_isotopes.lis')).read().split()


def dbd_names():
    return open(os.path.join(REPO, 'resources/description/dbd_isotopes.lis')).read().split()
