// Deterministic, replayable deviate streams and the forced-position overlay (DESIGN 1.2).
#pragma once
#include <cstdint>
#include <cstddef>
#include <map>
#include <string>
#include <vector>
#include <cstdio>

namespace vx {

typedef std::map<size_t, double> Forced;

// "squeezed" default streams (dx --squeeze lo,hi): every unforced deviate is mapped into [lo,hi] - an alphabet of default
// environment answers under which loops that a fair stream leaves after a few turns keep turning (0,1 = identity, bit-exact)
static double SQ_LO = 0.0, SQ_HI = 1.0;

// counter-based hash: fair in every dimension, a pure function of (phase, position)
static inline double stream_value(uint64_t phase, uint64_t i)
{
  uint64_t z = phase * 0xD1342543DE82EF95ULL + (i + 1) * 0x9E3779B97F4A7C15ULL;
  z = (z ^ (z >> 30)) * 0xBF58476D1CE4E5B9ULL;
  z = (z ^ (z >> 27)) * 0x94D049BB133111EBULL;
  z ^= z >> 31;
  return ((double)(z >> 11) + 0.5) / 9007199254740992.0;
}
static inline double squeezed_value(uint64_t phase, uint64_t i) { return SQ_LO + (SQ_HI - SQ_LO) * stream_value(phase, i); }

static inline double clamp01(double v)
{
  if (!(v > 0)) v = 1e-300;
  if (v >= 1) v = 1 - 1e-16;
  return v;
}

struct Source {
  const Forced * forced = nullptr;
  uint64_t phase = 1;
  bool squeeze = true; // (initialisation streams are never squeezed)
  double at(size_t pos) const
  {
    if (forced) {
      auto it = forced->find(pos);
      if (it != forced->end()) return clamp01(it->second);
    }
    return squeeze ? squeezed_value(phase, pos) : stream_value(phase, pos);
  }
};

static inline std::string forced_to_json(const Forced & f)
{
  std::string s = "{";
  bool first = true;
  char buf[64];
  for (auto & kv : f) {
    if (!first) s += ",";
    first = false;
    snprintf(buf, sizeof buf, "\"%zu\":%.17g", kv.first, kv.second);
    s += buf;
  }
  return s + "}";
}

} // namespace vx
