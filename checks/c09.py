"""C09 — the configure/initialise/shoot/reset protocol is a faithful state machine (DESIGN §2 C09)."""
import os, subprocess, json
import vlib, gadata


def one(exe, depth, modes, with_data, d, tag, prefix=None):
    out = os.path.join(d, 'out_%s.json' % tag)
    env = dict(os.environ)
    if with_data:
        gadir = os.path.join(d, 'ga')  # written once by run() before the worker threads start
        env['BXDECAY0_DBD_GA_DATA_DIR'] = gadir
    else:
        env.pop('BXDECAY0_DBD_GA_DATA_DIR', None)
    r = subprocess.run([exe, '--depth', str(depth), '--modes', modes, '--with-ga-data', '1' if with_data else '0', '--out', out] + (['--prefix', prefix] if prefix else []), env=env,
                       timeout=3400, stdout=subprocess.PIPE, stderr=subprocess.PIPE, text=True)
    if r.returncode == 77 and os.path.exists(out + '.crash'):
        txt = open(out + '.crash').read().split('\n', 1)
        return {'states': 0, 'transitions': 0, 'probes': 0, 'max_depth': 0, 'closed': False, 'ops': 0, 'outcomes': 0, 'samples': [],
                'violations': [{'key': 'crash:' + txt[1].rsplit(' ; ', 1)[-1][:60], 'text': 'the process died (%s) while this history was applied: [%s]' % (txt[0], txt[1])}]}
    if r.returncode != 0 or 'HARNESS-ERROR' in r.stdout:
        raise SystemExit('HARNESS-ERROR: c09 exited %d %s %s' % (r.returncode, r.stdout[-500:], r.stderr[-500:]))
    return json.load(open(out))


# start states other than a newly constructed object: right after an initialisation that was refused (for four different
# reasons) on a windowed, window-capable configuration - what such a failure leaves behind must not leak into the next try
PREFIXES = [
    'set_category(dbd);set_isotope(Xx);set_level(0);set_mode(4);set_esum(0.5,1.5);initialize',
    'set_category(dbd);set_isotope(Mo100);set_level(99);set_mode(4);set_esum(0.5,1.5);initialize',
    'set_category(dbd);set_isotope(Mo100);set_level(1);set_mode(4);set_esum(0.5,1.5);initialize',
    'set_category(dbd);set_isotope(Mo100);set_level(0);set_mode(4);set_esum(1.5,0.5);initialize',
]


def run(tier, rep):
    exe = vlib.build_harness('checks/c09.cc', 'plain')
    d = vlib.scratch('c09')
    gadata.install_tree(os.path.join(d, 'ga'))
    runs = []
    if tier == 'quick':
        import concurrent.futures as cf
        with cf.ThreadPoolExecutor(8) as ex:
            fs = [ex.submit(one, exe, 7, '1,7,21,0', False, d, 'a'), ex.submit(one, exe, 6, '4,1', False, d, 'w')]
            fs += [ex.submit(one, exe, 3, '4,1', False, d, 'p%d' % i, pf) for i, pf in enumerate(PREFIXES)]
            runs = [f.result() for f in fs]
    else:
        import concurrent.futures as cf
        with cf.ThreadPoolExecutor(8) as ex:
            fs = [ex.submit(one, exe, 8, '1,7,21,0', False, d, 'a'), ex.submit(one, exe, 8, '1,7,21,0', True, d, 'b'), ex.submit(one, exe, 7, '1,4,8,21', True, d, 'c')]
            fs += [ex.submit(one, exe, 4, '4,1', True, d, 'p%d' % i, pf) for i, pf in enumerate(PREFIXES)]
            runs = [f.result() for f in fs]
    st = tr = pr = 0
    samples = []
    for r in runs:
        st += r['states']; tr += r['transitions']; pr += r['probes']
        samples += r['samples'][:3]
        for v in r['violations']:
            rep.violation(v['key'], v['text'])
    rep.coverage.update({
        'states': st, 'transitions': tr, 'traces_validated_against_impl': tr, 'probe_shots_against_fresh_instance': pr,
        'evaluations': tr, 'distinct_nontrivial': st,
        'depth_completed': max(r['max_depth'] for r in runs), 'closed_under_alphabet': all(r['closed'] for r in runs),
        'exhaustive': all(r['ops'] for r in runs), 'operations': max(r['ops'] for r in runs), 'distinct_outcomes': max(r['outcomes'] for r in runs),
        'samples': samples or ['none'],
        'rule': 'breadth-first search over all sequences of the %d-operation alphabet (setters with valid/invalid arguments, add_operation(MDL|null), initialize, '
                'shoot, reset, destroy+new) up to the stated depth, plus three auxiliary entry points (mode by valid / unknown label, set_decay_version) applied as leaves after every transition; a second run uses the window-capable mode 4 so that toallevents != 1 before reset; four more searches start from other states than a new object (right after an initialisation refused for four different reasons on a windowed request); state = history replayed on a fresh decay0_generator, merged by the state of the '
                'reference machine plus a sticky mark of the last refused operation (for initialize: with the state it was refused in); every transition '
                'checks exception<->reference, all getters, after every successful initialisation the working parameters against a fresh instance configured alike, defaults after reset (including every field of get_bb_params()), and the probe shot against a fresh instance configured alike' % max(r['ops'] for r in runs),
    })
    rep.assumptions += ['the reference machine follows the literal statement of the property (reset from any state yields a new-like object)',
                        'validity of a configuration = reference GENBBsub rules (transpiled, kernel stubbed) + README rules for the gA modes',
                        'at most 2 registered operations and 2 shots per history (bounds that keep the reference machine finite)']


def replay(path):
    print(open(path).read())
    return 1
