"""C05 — a published nuclide name selects exactly one decay scheme; catalogues agree (DESIGN §2 C05)."""
import json, os, re, subprocess
import vlib


def readme_lists():
    txt = open(os.path.join(vlib.REPO, 'README.rst')).read()
    def section(title):
        i = txt.index(title)
        rest = txt[i + len(title):]
        m = re.search(r'\n[^\n]+\n(-{5,}|={5,})\n', rest[100:])
        return rest[: 100 + m.start()] if m else rest
    def bullets(sec, use_alias):
        out = []
        for m in re.finditer(r'^\* ``([^`]+)``(?:\s*\(for ``([^`]+)``\))?', sec, re.M):
            out.append(m.group(2) if (use_alias and m.group(2)) else m.group(1))
        return out
    dbd = bullets(section('List of supported  double beta decay isotopes'), False)
    bkg = bullets(section('List of standard radioactive isotopes (background/calibration)'), True)
    modes = []
    for m in re.finditer(r'^``DBDMODE_(\d+)``\s+``([^`]+)``\s+(\S+)', section('List of supported double beta decay modes'), re.M):
        modes.append((int(m.group(1)), m.group(2), -1 if m.group(3) == 'NA' else int(m.group(3))))
    return bkg, dbd, modes


def lis(name):
    out = []
    for ln in open(os.path.join(vlib.REPO, 'resources/description', name)):
        w = ln.split()
        if w and not w[0].startswith('#'):
            out.append(w[0])
    return out


def lis_modes():
    out = []
    for ln in open(os.path.join(vlib.REPO, 'resources/description/dbd_modes.lis')):
        w = ln.split()
        if w and not w[0].startswith('#'):
            out.append((int(w[0]), w[1], int(w[2])))
    return out


def dispatch_literals():
    """string literals of name_starts_with(chnuclide_, "...") in the initialisation part of genbbsub, per category"""
    src = open(os.path.join(vlib.REPO, 'bxdecay0/genbbsub.cc')).read()
    i_dbd = src.index('i2bbs_ == GENBBSUB_I2BBS_DBD')
    i_bkg = src.index('i2bbs_ == GENBBSUB_I2BBS_BACKGROUND')
    i_end = src.index('The code for output ASCII file')
    lit = lambda s: re.findall(r'name_starts_with\(chnuclide_,\s*"([^"]+)"\)', s)
    return sorted(set(lit(src[i_bkg:i_end]))), sorted(set(lit(src[i_dbd:i_bkg])))


def run(tier, rep):
    exe = vlib.build_harness('checks/c05.cc', 'plain')
    r = subprocess.run([exe, 'names'], stdout=subprocess.PIPE, stderr=subprocess.PIPE, text=True, timeout=300)
    if r.returncode != 0:
        raise SystemExit('HARNESS-ERROR: c05 names exited %d' % r.returncode)
    libn = json.loads(r.stdout)
    rd_bkg, rd_dbd, rd_modes = readme_lists()
    if len(rd_bkg) < 10 or len(rd_dbd) < 10 or len(rd_modes) < 10:
        raise SystemExit('HARNESS-ERROR: README appendix could not be parsed (%d/%d/%d entries)' % (len(rd_bkg), len(rd_dbd), len(rd_modes)))
    ls_bkg, ls_dbd, ls_modes = lis('background_isotopes.lis'), lis('dbd_isotopes.lis'), lis_modes()
    dl_bkg, dl_dbd = dispatch_literals()
    evals = 0
    # (1a) README == list files == what the library loads
    for cat, a, b, c in (('background', rd_bkg, ls_bkg, libn['background']), ('dbd', rd_dbd, ls_dbd, libn['dbd'])):
        for n in sorted(set(a) ^ set(b)):
            rep.violation('catalogue:%s:%s:readme-vs-lis' % (cat, n), "%s name '%s' is in %s only" % (cat, n, 'README appendix 1' if n in a else 'the resource list file'))
        for n in sorted(set(b) ^ set(c)):
            rep.violation('catalogue:%s:%s:lis-vs-library' % (cat, n), "%s name '%s' is in %s only" % (cat, n, 'the resource list file' if n in b else 'the set the library loads'))
        if len(a) != len(set(a)) or len(b) != len(set(b)):
            rep.violation('catalogue:%s:duplicates' % cat, 'duplicate names in a catalogue')
        evals += len(a) + len(b) + len(c)
    # (4) modes: README table == dbd_modes.lis == dbd_modes()
    libm = [(m['id'], m['label'], m['legacy']) for m in libn['modes']]
    for what, x, y in (('README table vs dbd_modes.lis', rd_modes, ls_modes), ('dbd_modes.lis vs dbd_modes()', ls_modes, libm)):
        if sorted(x) != sorted(y):
            rep.violation('catalogue:modes:' + what.replace(' ', '_'), '%s differ: %s' % (what, sorted(set(x) ^ set(y))[:6]))
    evals += len(rd_modes)
    # (1b) accepted names: every published name, every dispatch literal, every proper prefix/suffix variant
    acc = {}
    for cat, pub, lits in (('bkg', ls_bkg, dl_bkg), ('dbd', ls_dbd, dl_dbd)):
        # names nobody publishes and no dispatch entry matches: daughters that only appear inside chains, common sources the
        # library does not have, names of the other category, case variants, truncations, junk - all must be refused
        other = ls_dbd if cat == 'bkg' else ls_bkg
        probes = ['Po212', 'Sc48', 'Nb96', 'At214', 'Tl210', 'Ba137m', 'Pb207m', 'Co57', 'Ba133', 'Xx999', 'Zz', 'x', '0', 'co60', 'MO100', ' Co60', 'Co 60', 'Co', 'Mo1', 'Bi21', 'background', 'dbd']
        probes += [n for n in other if not any(n.startswith(l) for l in lits)][:12]
        probes = [n for n in probes if n not in pub and not any(n.startswith(l) for l in lits)]
        cand = sorted(set(pub) | set(lits) | set(rd_bkg if cat == 'bkg' else rd_dbd) | set(probes))
        r = subprocess.run([exe, 'accept', cat], input='\n'.join(cand) + '\n', stdout=subprocess.PIPE, stderr=subprocess.PIPE, text=True, timeout=900)
        if r.returncode != 0:
            raise SystemExit('HARNESS-ERROR: c05 accept exited %d' % r.returncode)
        for ln in r.stdout.splitlines():
            x = json.loads(ln)
            acc[(cat, x['name'])] = x
            evals += 1
        for n in pub:
            x = acc[(cat, n)]
            if 'crashed' in x:
                rep.violation('accept:%s:%s:crash' % (cat, n), "published name '%s' crashes: %s" % (n, x['crashed']))
            elif not x['init'] or x['particles'] < 1:
                rep.violation('accept:%s:%s:published-refused' % (cat, n), "published %s name '%s' does not initialise and generate (init=%s, particles=%s)" % (cat, n, x['init'], x['particles']))
            elif x['label'] != n:
                rep.violation('accept:%s:%s:label' % (cat, n), "event of '%s' is labelled '%s'" % (n, x['label']))
        for n in probes:
            x = acc[(cat, n)]
            if 'crashed' in x:
                rep.violation('accept:%s:%s:crash' % (cat, n.strip() or 'blank'), "unknown name '%s' crashes: %s" % (n, x['crashed']))
            elif x['init']:
                rep.violation('accept:%s:%s:unknown-accepted' % (cat, n.strip().replace(' ', '_') or 'blank'), "the %s name '%s' is published nowhere and matches no dispatch entry, but initialises (and yields %d particles)" % (cat, n, x['particles']))
        for l in lits:
            x = acc[(cat, l)]
            generates = ('crashed' not in x) and x['init'] and x['particles'] >= 1
            published = [p for p in pub if p.startswith(l)]
            if generates and not published:
                rep.violation('accept:%s:%s:unpublished-accepted' % (cat, l), "the generator accepts and generates the %s name '%s', which is published neither in the README nor in the list file" % (cat, l))
            if not generates and published and l in pub:
                pass
        for p in pub:
            if not any(p.startswith(l) for l in lits):
                rep.violation('accept:%s:%s:no-dispatch' % (cat, p), "published %s name '%s' matches no dispatch entry" % (cat, p))
    # (1c) the set of accepted names does not depend on what the working block was used for before: every published background
    # name is initialised and explored (layer A, against the model) on a block that has just served a double-beta session
    # (quadruple beta, a Majoron mode with an energy window, a double K capture), without a reset in between
    import dxlib
    pres = ['dbd Nd150 0 20 -1 -1', 'dbd Mo100 0 5 0.5 2.5', 'dbd Cd106 0 12 -1 -1'] if tier != 'quick' else ['dbd Nd150 0 20 -1 -1', 'dbd Cd106 0 12 -1 -1']
    hist = ['bkg %s 0 0 -1 -1 PRE %s' % (n, p) for n in ls_bkg for p in pres]
    hres, hd = dxlib.run_dx('plain', hist, 'c05h', 'A', 'ref', deadline=300)
    hexecs = 0
    for hr in hres:
        if 'crashed' in hr:
            rep.violation('after-session:%s:crash' % hr['key'], "'%s' dies (%s)" % (hr['key'], hr['crashed']))
            continue
        hexecs += hr['executions']
        if hr['port_err'] != 0:
            rep.violation('after-session:%s:refused' % hr['key'], "published background name refused on a working block that served a double-beta session before: %s (error %s %s)" % (hr['key'], hr['port_err'], hr.get('port_init_what', '')))
        for v in hr['violations']:
            if v['oracle'] == 'ref' and hr.get('ref_ier') == 0:
                rep.violation('after-session:%s:%s' % (hr['key'], dxlib.why_class(v['why'])), '%s: %s (forced=%s)' % (hr['key'], v['why'], v['forced']), dxlib.replay_text(hr, v, 'genbbsub'))
    evals += hexecs
    rep.coverage['names_after_a_double_beta_session'] = len(hres)
    # (2)+(3) own scheme, same deviates
    nph = 2 if tier == 'quick' else 8
    r = subprocess.run([exe, 'scheme', str(nph)] + (['deep'] if tier != 'quick' else []), stdout=subprocess.PIPE, stderr=subprocess.PIPE, text=True, timeout=3000)
    if r.returncode != 0:
        raise SystemExit('HARNESS-ERROR: c05 scheme exited %d' % r.returncode)
    execs = distinct = 0
    seen = set()
    samples = []
    for ln in r.stdout.splitlines():
        x = json.loads(ln)
        seen.add(x['name'])
        if 'crashed' in x:
            rep.violation('bkg:%s:crash' % x['name'], "scheme comparison of '%s' died: %s" % (x['name'], x['crashed']))
            continue
        execs += x['executions']; distinct += x['distinct']
        for v in x['violations']:
            rep.violation(v['key'], v['text'])
        if len(samples) < 3:
            samples.append({'name': x['name'], 'executions': x['executions'], 'distinct_event_shapes': x['distinct']})
    # (2b) all names one after the other in one process, three orders
    r = subprocess.run([exe, 'sequence'], stdout=subprocess.PIPE, stderr=subprocess.PIPE, text=True, timeout=1500)
    if r.returncode != 0:
        raise SystemExit('HARNESS-ERROR: c05 sequence exited %d' % r.returncode)
    nseq = 0
    for ln in r.stdout.splitlines():
        x = json.loads(ln)
        if 'crashed' in x:
            rep.violation('sequence:%s:crash' % x['name'], "the in-process sequence of all names (%s) died: %s" % (x['name'], x['crashed']))
            continue
        execs += x['executions']; nseq += 1
        for v in x['violations']:
            rep.violation(v['key'], v['text'])
    if nseq != 3:
        rep.violation('sequence:incomplete', 'only %d of the 3 in-process sequences finished' % nseq)
    for n in ls_bkg:
        if n not in seen:
            rep.violation('bkg:%s:no-scheme-known' % n, "published background name '%s' has no entry in the check's scheme table (new nuclide?)" % n)
    prefix_pairs = [(a, b) for a in ls_bkg for b in ls_bkg if a != b and b.startswith(a)] + [(a, b) for a in ls_dbd for b in ls_dbd if a != b and b.startswith(a)]
    rep.coverage.update({
        'evaluations': execs + evals, 'distinct_nontrivial': distinct, 'scheme_executions': execs, 'names_checked': len(acc),
        'prefix_pairs': ['%s<%s' % p for p in prefix_pairs], 'exhaustive': True, 'samples': samples,
        'rule': 'finite and complete: names of README appendix 1 (both lists), of the two .lis files (parsed independently and through the library), and the '
                'string literals of the dispatch in genbbsub.cc, plus ~30 names that are published nowhere and match no dispatch entry (must be refused); every name of the union is initialised and shot; the three sets must agree per category; the '
                'README mode table, dbd_modes.lis and dbd_modes() must agree; for each of the 69 published background names the event obtained through '
                'decay0_generator equals (bit for bit, same deviates consumed) the event obtained by calling the nuclide\'s own scheme function plus exactly '
                'the documented daughter, for the default stream and every single forced deviate position (<=80) over a 15-value grid, every pair of the first five positions%s, %d streams; '
                'all names also generated one after the other in one process in three orders (13 executions each); distinct = distinct (species list, deviates consumed) shapes' % (' (thorough: every pair of the first eight and every triple of the first four positions)' if tier != 'quick' else '', nph),
    })
    rep.assumptions += ['name -> scheme-function table (checks/c05_schemes.inc) written from README appendix 1; daughters: Bi212+Po212 and Bi214+Po214 only after a beta branch, '
                        'Ca48+Sc48 and Zr96+Nb96 always, shifted by the daughter decay time', 'double-beta names: initialise and generate, catalogue equality (their schemes are bound by C02)']


def replay(path):
    txt = open(path).read()
    if txt.split('\n')[0].split()[:1] in (['bkg'], ['dbd']):
        import dxlib
        return dxlib.replay(path)
    print(txt)
    return 1
