"""Driver-side helpers for the deviate explorer dx (C01, C02, C03, C04, C08)."""
import os, subprocess, json, re
import vlib

# the published background names (README appendix 1) — kept here so that deleting a name from the
# resource list in /repo cannot silently shrink what is explored
BKG69 = """Ac228 Am241 Ar39 Ar42 As79+Se79m Bi207+Pb207m Bi208 Bi210 Bi212+Po212 Bi214+Po214 C14 Ca48+Sc48 Cd113 Co60
Cs136 Cs137+Ba137m Eu147 Eu152 Eu154 Gd146 Hf182 I126 I133 I134 I135 K40 K42 Kr81 Kr85 Mn54 Na22 P32 Pa231 Pa234m Pb210
Pb211 Pb212 Pb214 Po210 Po218 Ra226 Ra228 Rb87 Rh106 Rn222 Sb125 Sb126 Sb133 Sr90 Ta180m-B- Ta180m-EC Ta182 Te133 Te133m
Te134 Th230 Th234 Tl207 Tl208 U234 U238 Xe129m Xe131m Xe133 Xe135 Y88 Y90 Zn65 Zr96+Nb96""".split()
DBD51 = """Ca40 Ca46 Ca48 Ni58 Zn64 Zn70 Ge76 Se74 Se82 Sr84 Zr94 Zr96 Mo92 Mo100 Ru96 Ru104 Cd106 Cd108 Cd114 Cd116 Sn112
Sn122 Sn124 Te120 Te128 Te130 Xe136 Ce136 Ce138 Ce142 Nd148 Nd150 Dy156 Dy158 W180 W186 Os184 Os192 Pt190 Pt198 Bi214
Pb214 Po218 Rn222 Sm144 Sm154 Er162 Er164 Er170 Yb168 Yb176""".split()
WINDOW_MODES = [4, 5, 6, 8, 10, 13, 14, 15, 16, 19]


def bkg_all():
    names = list(BKG69)
    for n in vlib.bkg_names():
        if n not in names:
            names.append(n)
    return names


def dbd_all():
    names = list(DBD51)
    for n in vlib.dbd_names():
        if n not in names:
            names.append(n)
    return names


PORT_ONLY = ['Po210', 'Po218', 'Rn222', 'Ra226', 'Pa231', 'Th230', 'U234', 'U238']


def write_literals(d):
    """decision literals of the nuclides that have no reference model: every numeric literal compared with <= in the
    nuclide's source file, as a probability (v/100 for percent scales, v itself if already in (0,1))"""
    import re
    ld = os.path.join(d, 'lit')
    os.makedirs(ld, exist_ok=True)
    for n in PORT_ONLY:
        src = os.path.join(vlib.REPO, 'bxdecay0', n + '.cc')
        vals = set()
        if os.path.exists(src):
            for m in re.finditer(r'<=?\s*([0-9]+\.?[0-9]*(?:[eE][-+]?[0-9]+)?)\s*\)', open(src).read()):
                v = float(m.group(1))
                if 0 < v < 100:
                    vals.add(v / 100.0)
                if 0 < v < 1:
                    vals.add(v)
        with open(os.path.join(ld, n + '.lit'), 'w') as f:
            f.write('\n'.join('%.17g' % v for v in sorted(vals)) + '\n')
    return ld


SKIPPED = 0


# squeezed default streams (dx --squeeze lo,hi): halves, thirds, tenths of (0,1)
SQUEEZES = ['0.5,1', '0,0.5', '0,0.34', '0.33,0.67', '0.66,1', '0.9,1', '0,0.1']
SQUEEZES_QUICK = ['0,0.5', '0.33,0.67']


def run_dx(variant, cfg_lines, tag, layers, oracle, api='genbbsub', phases=1, deadline=600, extra=(), jobs=16, timeout=3600):
    exe = vlib.build_harness('checks/dx.cc', variant)
    d = vlib.scratch(tag)
    extra = list(extra) + ['--litdir', write_literals(d)]
    cfg = os.path.join(d, 'cfg')
    out = os.path.join(d, 'out.jsonl')
    with open(cfg, 'w') as f:
        f.write('\n'.join(cfg_lines) + '\n')
    cmd = [exe, '--cfgfile', cfg, '--out', out, '--layers', layers, '--oracle', oracle, '--api', api, '--phase', str(vlib.SEED),
           '--phases', str(phases), '--deadline', str(deadline), '--global-deadline', str(deadline), '--jobs', str(jobs), '--timeout', str(int(deadline + 120))] + list(extra)
    env = dict(os.environ)
    env['ASAN_OPTIONS'] = 'halt_on_error=0:detect_leaks=0:log_path=%s/asan' % d
    env['UBSAN_OPTIONS'] = 'halt_on_error=0:print_stacktrace=1:log_path=%s/ubsan' % d
    env['VERIF_SAN_LOG'] = os.path.join(d, 'ubsan.hook')
    try:
        r = subprocess.run(cmd, env=env, timeout=timeout, stdout=subprocess.PIPE, stderr=subprocess.PIPE, text=True)
    except subprocess.TimeoutExpired:
        raise SystemExit('HARNESS-ERROR: dx exceeded its global timeout')
    if r.returncode != 0:
        raise SystemExit('HARNESS-ERROR: dx exited %d: %s' % (r.returncode, r.stderr[-2000:]))
    res = vlib.read_jsonl(out)
    # configurations the explorer did not get to before its global deadline: reported, never silently dropped
    global SKIPPED
    SKIPPED += sum(1 for r in res if r.get('skipped'))
    res = [r for r in res if not r.get('skipped')]
    return res, d


def replay_text(res, v, api):
    c = res['config']
    lines = ['%s %s %d %d %g %g' % (c['cat'], c['name'], c['level'], c['mode'], c['e1'] if c['e1'] is not None else -1, c['e2'] if c['e2'] is not None else -1),
             str(vlib.SEED), api + (' nme2' if res.get('key', '').endswith(':nme2') else '') + (' nme3' if res.get('key', '').endswith(':nme3') else '') + (' squeeze=%s' % c['squeeze'] if c.get('squeeze') else '')]
    if c.get('hist'):
        lines[0] += ' HIST ' + c['hist']
    if c.get('pre'):
        lines[0] += ' PRE ' + c['pre']
    for k, val in sorted(v['forced'].items(), key=lambda kv: int(kv[0])):
        lines.append('%s %.17g' % (k, val))
    lines.append('# oracle=%s why=%s' % (v['oracle'], v['why']))
    lines.append('# port : %s' % json.dumps(v.get('port')))
    if 'model' in v:
        lines.append('# model: %s' % json.dumps(v.get('model')))
    return '\n'.join(lines) + '\n'


def why_class(why):
    """stable class of a disagreement (numbers removed) used in violation keys"""
    w = re.sub(r'[-+]?\d+(\.\d+)?([eE][-+]?\d+)?', '#', why)
    return re.sub(r'\s+', '_', w.strip())[:60]


def replay(path):
    api = open(path).read().split('\n')[2].strip()
    exe = vlib.build_harness('checks/dx.cc', 'plain')
    r = subprocess.run([exe, '--replay', path], stdout=subprocess.PIPE, stderr=subprocess.DEVNULL, text=True, timeout=600)
    print(r.stdout)
    return 0 if ('compare: equal' in r.stdout or 'compare:' not in r.stdout) and 'c04: ok' in r.stdout and 'c03: ok' in r.stdout else 1
