"""C10 — momentum-direction lock only re-orients: rigid rotation into the requested cone (DESIGN §2 C10)."""
import os, subprocess, json
import vlib


def run(tier, rep):
    exe = vlib.build_harness('checks/c10.cc', 'plain')
    d = vlib.scratch('c10')
    out = os.path.join(d, 'out.json')
    r = subprocess.run([exe, '--out', out, '--phase', str(vlib.SEED)] + (['--full'] if tier != 'quick' else []), timeout=3400,
                       stdout=subprocess.PIPE, stderr=subprocess.PIPE, text=True)
    if r.returncode != 0:
        raise SystemExit('HARNESS-ERROR: c10 exited %d %s' % (r.returncode, r.stderr[-500:]))
    x = json.load(open(out))
    for v in x['violations']:
        rep.violation(v['key'], v['text'])
    rep.coverage.update({
        'evaluations': x['applications'] + x['generator_runs'],
        'distinct_nontrivial': x['target_hits'] + x['selection_hits'],
        'target_mode_rotations': x['target_hits'], 'selection_mode_rotations': x['selection_hits'], 'nothing_selected_cases': x['nothing_selected'],
        'error_on_missing_raised': x['missing_errors'], 'refused_degenerate_setups': x['refused_setups'], 'generator_level_runs': x['generator_runs'],
        'exhaustive': True, 'samples': x['samples'] or ['none'],
        'rule': 'full product of 12 synthetic events (1-4 particles, collinear, opposite, along +-z, tiny momentum, alpha) x cone axes (incl. unnormalised and '
                'near-polar) x circular apertures {0,1e-3,0.3,pi/2,2,pi-1e-3} x rectangular half-angle pairs x species filters x ranks {-1,0,1,5} x error flag x the '
                'five configuration entry points x a grid of the two cone deviates incl. both tails; invariants: count/species/times/|p| unchanged, rigid proper '
                'rotation in target mode, target/selected particles inside the cone or rectangular window built independently of the library, unselected untouched, '
                'nothing selected => unchanged or error iff requested, target index; generator-level: same decay sample with and without the operation; '
                'non-trivial = applications that actually rotated something',
    })
    rep.assumptions += ['a rectangular cut with a zero half-angle is degenerate: refusal is the accepted outcome',
                        'tolerances: 1e-11 relative on |p|, 1e-10 on angles, 1e-7 rad on the cone boundary']


def replay(path):
    print(open(path).read())
    return 1
