"""C02 — double-beta events reproduce the Decay0 reference for every isotope/level/mode (DESIGN §2 C02)."""
import dxlib, vlib, c01

EMASS = 0.51099906


def grid():
    return ['dbd %s %d %d' % (n, l, m) for n in dxlib.dbd_all() for l in range(0, 18) for m in range(1, 21)]


def r64(x):
    return round(x * 64.0) / 64.0


def window_cfgs(results, nested=False):
    """window configurations for every accepted window-capable configuration (bounds are multiples of 1/64 MeV,
    exact in float, because decay0_generator stores the window as float)"""
    out = []
    for r in results:
        if 'crashed' in r or r['port_err'] != 0:
            continue
        c = r['config']
        if c['mode'] not in dxlib.WINDOW_MODES:
            continue
        q, el, ek, zd = r['qbb'], r['edlevel'], r['ek'], r['zdbb']
        e0 = q - el
        if zd < 0:
            e0 = q - el - 4 * EMASS
        if c['mode'] == 10:
            e0 = q - el - ek - 2 * EMASS
        if e0 < 0.2:
            continue
        ws = [(r64(0.3 * e0), r64(0.8 * e0)), (0.0, r64(0.5 * e0))]
        if nested:
            ws = [(0.0, r64(e0 + 0.05)), (r64(0.2 * e0), r64(0.9 * e0)), (r64(0.4 * e0), r64(0.7 * e0)), (r64(0.5 * e0), r64(0.6 * e0))]
        # an upper bound beyond every Q-value (the documented default is 4.3 MeV, users may give more): the effective window
        # ends at the available energy; the spectrum tables hold 4300 bins
        ws.append((r64(0.3 * e0), 12.0))
        # a narrow window (narrower than a tenth of its upper bound) in the bulk of the sum spectra (at the top of the range
        # the two-neutrino modes need ~1e4 candidates per event: measured, 5x the cost of the whole tier)
        ws.append((r64(0.45 * e0), r64(0.49 * e0)))
        for (a, b) in ws:
            if b - a >= 1.0 / 64:
                out.append('dbd %s %d %d %.10g %.10g' % (c['name'], c['level'], c['mode'], a, b))
        if nested and r64(0.5 * e0) >= 1.0 / 64:
            # one-sided windows (decay0_generator accepts an undefined bound; bxdecay0-run --dbd-emin X alone produces one):
            # the missing side defaults to 0 / 4.3 MeV; "-1" encodes the absent bound
            out.append('dbd %s %d %d %.10g -1' % (c['name'], c['level'], c['mode'], r64(0.5 * e0)))
            out.append('dbd %s %d %d -1 %.10g' % (c['name'], c['level'], c['mode'], r64(0.5 * e0)))
    return out


def chain_cfgs(acc_cfg, wcfg, tier):
    """re-initialisation chains on the same working objects (plumbing API, same bbpars, no reset): predecessor = the same
    isotope's ground-state/no-window configuration (or another mode), then the configuration itself"""
    chain = []
    for i, c in enumerate(acc_cfg):
        if tier == 'quick' and i % 6 != vlib.SEED % 6:
            continue
        if c['level'] > 0:
            pre = 'dbd %s 0 %d -1 -1' % (c['name'], c['mode'] if any(a['name'] == c['name'] and a['level'] == 0 and a['mode'] == c['mode'] for a in acc_cfg) else 1)
        else:
            pre = 'dbd %s 0 %d -1 -1' % (c['name'], 4 if c['mode'] != 4 else 1)
        if not any(a['name'] == pre.split()[1] and a['level'] == 0 and a['mode'] == int(pre.split()[3]) for a in acc_cfg):
            continue
        chain.append('dbd %s %d %d -1 -1 PRE %s' % (c['name'], c['level'], c['mode'], pre))
    for i, w in enumerate(wcfg):
        if i % 3 == 0:
            t = w.split()
            chain.append('%s PRE dbd %s %s %s -1 -1' % (w, t[1], t[2], t[3]))
    return chain


def run(tier, rep):
    if tier == 'quick':
        layers, phases, deadline = 'A,B1', 1, 300
    else:
        layers, phases, deadline = 'A,B2,C', 2, 1500
    # pass 1 (always complete): the whole request grid, acceptance + initialisation + edge coverage (+ one forced deviate)
    res, d = dxlib.run_dx('plain', grid(), 'c02', 'A,B1', 'ref', phases=1, deadline=1200)
    accepted = [r for r in res if r.get('ref_ier') == 0 and not (r['config']['mode'] == 20 and r['config']['level'] >= 1)]
    if len(accepted) < 1000 and not dxlib.SKIPPED:
        raise SystemExit('HARNESS-ERROR: the reference model accepts only %d double-beta configurations' % len(accepted))
    deep = []
    if tier != 'quick':
        # pass 2 (deadline-bounded; what is not reached is reported, the run is then marked non-exhaustive): two forced
        # deviates and all discrete paths on every accepted configuration, ground states first
        acc_lines = ['dbd %s %d %d' % (r['config']['name'], r['config']['level'], r['config']['mode'])
                     for r in sorted(accepted, key=lambda r: (r['config']['level'], r['config']['name'], r['config']['mode'])) if 'crashed' not in r]
        deep, dd = dxlib.run_dx('plain', acc_lines, 'c02d', 'B2,C', 'ref', phases=2, deadline=1800)
    # mode 18 depends on seven nuclear matrix elements given by the caller: a second set (chi'_R = 0) on every accepted mode-18 configuration
    m18 = ['dbd %s %d 18' % (r['config']['name'], r['config']['level']) for r in accepted if 'crashed' not in r and r['config']['mode'] == 18]
    res18, d18 = dxlib.run_dx('plain', m18, 'c02n', 'A,B1', 'ref', phases=1, deadline=300, extra=['--nme-set', '1'])
    for r in res18:
        r['key'] = r['key'] + ':nme2'
    # a third set (small chi'_P, chi'_R: the spectrum shape then depends on the nuclear radius)
    res18c, d18c = dxlib.run_dx('plain', m18, 'c02n', 'A,B1' if tier != 'quick' else 'A', 'ref', phases=1, deadline=300, extra=['--nme-set', '2'])
    for r in res18c:
        r['key'] = r['key'] + ':nme3'
    res18 = res18 + res18c
    wcfg = window_cfgs(res)
    if tier == 'quick':
        wcfg = [w for i, w in enumerate(wcfg) if i % 4 == vlib.SEED % 4]
    res2, d2 = dxlib.run_dx('plain', wcfg, 'c02w', 'A,B1', 'ref', phases=1, deadline=600)
    # layer A of the whole grid again under squeezed default streams (see C01)
    squeezes = ['0.33,0.67'] if tier == 'quick' else dxlib.SQUEEZES
    ressq = []
    for sq in squeezes:
        rs, ds = dxlib.run_dx('plain', grid(), 'c02s', 'A', 'ref', phases=1, deadline=600, extra=['--squeeze', sq, '--horizon', '30000'])
        for r in rs:
            r['squeeze_pass'] = sq
        ressq += rs
    rep.coverage['squeezed_default_streams'] = list(squeezes)
    acc_cfg = [r['config'] for r in accepted if 'crashed' not in r]
    chain = chain_cfgs(acc_cfg, wcfg, tier)
    res3, d3 = dxlib.run_dx('plain', chain, 'c02c', 'A' if tier == 'quick' else 'A,B1', 'ref', phases=1, deadline=600)
    rep.coverage['reinitialisation_chains'] = len(res3)
    c01.aggregate(rep, res + deep + res18 + res2 + res3 + ressq, True, ('ref',), 'genbbsub',
                  'configurations = every (isotope, level 0..17, mode 1..20) the reference GENBBsub accepts (grid of %d requests enumerated, acceptance '
                  'compared on each) plus energy windows on the window-capable modes; per configuration: same initialisation stream on both sides '
                  '(toallevents, deviates consumed and the 4300-bin first-lepton spectrum table compared), then layers %s of the deviate explorer '
                  'over bb + de-excitation cascade + alpha chains, every execution replayed on model and port' % (len(res), 'A+B1' if tier == 'quick' else 'A+B1 on the whole grid, then B2+C (two streams) on every accepted configuration within a 1800 s budget'))
    rep.coverage['grid_requests'] = len(res)
    rep.coverage['reference_accepted'] = len(accepted)
    rep.coverage['window_configurations'] = len(res2)
    rep.coverage['max_table_rel_diff'] = max([r.get('table_rel') or 0 for r in res + res2 if 'crashed' not in r] + [0])
    rep.assumptions += ['F77->C++ transpilation of the reference is faithful (tools/f2cxx.py; REAL evaluated in double)',
                        'CERNLIB stand-ins (GAUSS, DGMLT1/2, DIVDIF, CGAMMA) in ref/cernlib_shim.cc are independent re-implementations',
                        'mode 18 is driven with three fixed sets of seven NMEs (chi_R dominating, chi_R = 0, chi_P and chi_R both small) on both sides',
                        'executions whose model-side decision margin is below tau (10x the measured table noise, >=1e-6) are counted ambiguous, not compared']


def replay(path):
    return dxlib.replay(path)
