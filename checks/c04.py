"""C04 — every generated event is well-formed, time-ordered and produced in bounded work (DESIGN §2 C04)."""
import dxlib, vlib, c01, c02


def run(tier, rep):
    if tier == 'quick':
        layers, deadline = 'A,B1', 300
    else:
        layers, deadline = 'A,B2', 1500
    cfg = ['bkg %s' % n for n in dxlib.bkg_all()] + c02.grid()
    res, d = dxlib.run_dx('plain', cfg, 'c04', layers, 'ref,inv', api='generator', deadline=deadline)
    acc = [r for r in res if 'crashed' in r or r['port_err'] == 0]
    wcfg = c02.window_cfgs(res)
    if tier == 'quick':
        wcfg = [w for i, w in enumerate(wcfg) if i % 4 == vlib.SEED % 4]
    res2, d2 = dxlib.run_dx('plain', wcfg, 'c04w', 'A,B1', 'ref,inv', api='generator', deadline=deadline)
    acc += [r for r in res2 if 'crashed' in r or r['port_err'] == 0]
    # a second pass over the background names with a dense interior grid (16 / 32 values) on every draw: rejection samplers
    # the port revised (Y90's internal pair) or only the port has cannot be steered from the model's thresholds
    res3, d3 = dxlib.run_dx('plain', ['bkg %s' % n for n in dxlib.bkg_all()], 'c04d', 'A', 'inv', api='generator', deadline=deadline, extra=['--dense', '16' if tier == 'quick' else '32'])
    for r in res3:
        r['dense_pass'] = True
    acc += [r for r in res3 if 'crashed' in r or r['port_err'] == 0]
    nb = len([r for r in acc if 'crashed' not in r and r['config']['cat'] == 'bkg' and not r.get('dense_pass')])
    if nb < 69:
        rep.violation('bkg:count', 'only %d of the 69 published background names initialise' % nb)
    c01.aggregate(rep, acc, False, ('c04',), 'generator',
                  'every published background name and every accepted double-beta configuration (plus windows), driven through '
                  'decay0_generator::initialize/shoot; layers %s with the tail values 1e-12 and 1-1e-12 in the alphabet of every choice point; '
                  'invariants of C04 on every execution; background names a second time with a 16/32-point interior grid on every draw; bounded work = every execution finishes within 1e5 deviates under the fair default stream '
                  '(thresholds from the reference model where it exists, from bisection on the port\'s draw-site signature otherwise)' % layers)
    rep.coverage['max_deviates_per_shot'] = max([r['max_draws'] for r in acc if 'crashed' not in r] + [0])
    rep.coverage['max_particles'] = max([r['max_np'] for r in acc if 'crashed' not in r] + [0])
    rep.coverage['max_kinetic_energy_MeV'] = max([r['max_kin'] or 0 for r in acc if 'crashed' not in r] + [0])
    rep.assumptions += ['deviates are independent: the default stream is a counter hash (fair); adversarial constant sequences are outside the property',
                        'kinetic energy bound 12 MeV; draw horizon 1e5 per shot']


def replay(path):
    return dxlib.replay(path)
