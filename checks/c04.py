"""C04 — every generated event is well-formed, time-ordered and produced in bounded work (DESIGN §2 C04)."""
import dxlib, vlib, c01, c02


def run(tier, rep):
    if tier == 'quick':
        layers, deadline = 'A,B1', 300
    else:
        layers, deadline = 'A,B2', 1500
    cfg = ['bkg %s' % n for n in dxlib.bkg_all()] + c02.grid()
    res, d = dxlib.run_dx('plain', cfg, 'c04', layers, 'ref,inv', api='generator', deadline=deadline)
    acc = [r for r in res if 'crashed' in r or r['port_err'] == 0]
    wcfg = c02.window_cfgs(res)
    if tier == 'quick':
        wcfg = [w for i, w in enumerate(wcfg) if i % 4 == vlib.SEED % 4]
    res2, d2 = dxlib.run_dx('plain', wcfg, 'c04w', 'A,B1', 'ref,inv', api='generator', deadline=deadline)
    acc += [r for r in res2 if 'crashed' in r or r['port_err'] == 0]
    # a second pass over the background names with a dense interior grid (16 / 32 values) on every draw: rejection samplers
    # the port revised (Y90's internal pair) or only the port has cannot be steered from the model's thresholds
    res3, d3 = dxlib.run_dx('plain', ['bkg %s' % n for n in dxlib.bkg_all()], 'c04d', 'A', 'inv', api='generator', deadline=deadline, extra=['--dense', '16' if tier == 'quick' else '32'])
    for r in res3:
        r['dense_pass'] = True
    acc += [r for r in res3 if 'crashed' in r or r['port_err'] == 0]
    # squeezed default streams: every unforced deviate mapped into a sub-interval of (0,1) - loops that a fair stream leaves
    # after a few turns (vacancy cascades, chains of conversions) keep turning when every answer falls on the same side.
    # Rejection loops whose acceptance region the squeeze excludes turn for ever in the reference as well: a horizon is a
    # violation only when the model terminates on the same deviates with every decision margin clear (plumbing API, where the
    # table margin is calibrated); both-sided horizons are counted (rejection_loops_unbounded_under_squeeze)
    squeezes = ['0.5,1', '0,0.5'] if tier == 'quick' else ['0.5,1', '0,0.5', '0,0.34', '0.33,0.67', '0.66,1', '0.9,1', '0,0.1']
    sq_cfg = ['bkg %s' % n for n in dxlib.bkg_all()] + ([] if tier == 'quick' else c02.grid())
    both = 0
    for sq in squeezes:
        rs, ds = dxlib.run_dx('plain', sq_cfg, 'c04s', 'A', 'ref,inv', api='genbbsub', deadline=deadline, extra=['--squeeze', sq, '--horizon', '30000'])
        for r in rs:
            r['squeeze_pass'] = sq
            r['api'] = 'genbbsub'
            both += r.get('both_horizon', 0) if 'crashed' not in r else 0
        acc += [r for r in rs if 'crashed' in r or r['port_err'] == 0]
    # re-initialisation chains on the same working block (plumbing API, no reset in between): the second configuration's
    # events must be as well-formed as those of a fresh block; background names after a double-beta session too
    acc_cfg = [r['config'] for r in res if 'crashed' not in r and r['port_err'] == 0]
    chain = c02.chain_cfgs(acc_cfg, wcfg, tier)
    pres = ['dbd Nd150 0 20 -1 -1', 'dbd Mo100 0 4 -1 -1'] if tier != 'quick' else ['dbd Nd150 0 20 -1 -1']
    chain += ['bkg %s 0 0 -1 -1 PRE %s' % (n, p) for n in dxlib.bkg_all() for p in pres]
    res4, d4 = dxlib.run_dx('plain', chain, 'c04c', 'A', 'ref,inv', api='genbbsub', deadline=deadline)
    for r in res4:
        r['chain_pass'] = True
        r['api'] = 'genbbsub'
    acc += [r for r in res4 if 'crashed' in r or r['port_err'] == 0]
    rep.coverage['reinitialisation_chains'] = len(res4)
    rep.coverage['squeezed_default_streams'] = squeezes
    rep.coverage['rejection_loops_unbounded_under_squeeze_on_both_sides'] = both
    nb = len([r for r in acc if 'crashed' not in r and r['config']['cat'] == 'bkg' and not r.get('dense_pass') and not r.get('squeeze_pass') and not r.get('chain_pass')])
    if nb < 69:
        rep.violation('bkg:count', 'only %d of the 69 published background names initialise' % nb)
    c01.aggregate(rep, acc, False, ('c04',), 'generator',
                  'every published background name and every accepted double-beta configuration (plus windows), driven through '
                  'decay0_generator::initialize/shoot; layers %s with the tail values 1e-12 and 1-1e-12 in the alphabet of every choice point; '
                  'invariants of C04 on every execution; background names a second time with a 16/32-point interior grid on every draw, and (with the double-beta grid in the thorough tier) under squeezed default streams (every unforced deviate mapped into a sub-interval of (0,1)); bounded work = every execution finishes within 1e5 deviates under the fair default stream '
                  '(thresholds from the reference model where it exists, from bisection on the port\'s draw-site signature otherwise)' % layers)
    rep.coverage['max_deviates_per_shot'] = max([r['max_draws'] for r in acc if 'crashed' not in r] + [0])
    rep.coverage['max_particles'] = max([r['max_np'] for r in acc if 'crashed' not in r] + [0])
    rep.coverage['max_kinetic_energy_MeV'] = max([r['max_kin'] or 0 for r in acc if 'crashed' not in r] + [0])
    rep.assumptions += ['deviates are independent: the default stream is a counter hash (fair), also squeezed into halves, thirds and tenths of (0,1); sequences under which the reference itself never terminates (a rejection loop that is never satisfied) are outside the property',
                        'kinetic energy bound 12 MeV; draw horizon 1e5 per shot']


def replay(path):
    return dxlib.replay(path)
