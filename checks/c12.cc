// c12 — independent generators do not interfere across threads (DESIGN §2 C12): all interleavings of the hooked
// synchronisation points up to a preemption bound, on the real code.
//   L1: threads call decay0_gauss directly (smooth integrand / an integrand that makes QNG return GSL_ETOL).
//   L2: threads run whole generators (construct, configure, initialise, shoot) and must produce their sequential events.
// Scheduling points are reached by link-time interposition: this executable defines the functions the shared library
// imports (gsl_set_error_handler_off, gsl_set_error_handler, gsl_integration_qng, pthread_mutex_lock/unlock,
// __cxa_guard_acquire) and forwards to the real ones. Each schedule runs in a forked child, so an abort() raised by
// GSL's default error handler is an observable outcome of that schedule.
//
//   c12 --harness l1a|l1b|l1c|l2a|l2b --bound N --out FILE [--max-schedules N]
#include "sched.hpp"
#include <bxdecay0/decay0_generator.h>
#include <bxdecay0/event.h>
#include <bxdecay0/gauss.h>
#include <bxdecay0/i_random.h>
#include "stream.hpp"
#include <cmath>
#include <dlfcn.h>
#include <gsl/gsl_errno.h>
#include <gsl/gsl_integration.h>
#include <bxdecay0/mdl_event_op.h>
#include <memory>
#include <ctime>
#include <map>
#include <set>
#include <string>
#include <sys/wait.h>

// ---------------------------------------------------------------- interposers (scheduling points)
typedef int (*mutex_fn)(pthread_mutex_t *);
static mutex_fn real_lock = nullptr, real_trylock = nullptr, real_unlock = nullptr;
static void resolve_mutex()
{
  if (!real_lock) real_lock = (mutex_fn)dlsym(RTLD_NEXT, "pthread_mutex_lock");
  if (!real_trylock) real_trylock = (mutex_fn)dlsym(RTLD_NEXT, "pthread_mutex_trylock");
  if (!real_unlock) real_unlock = (mutex_fn)dlsym(RTLD_NEXT, "pthread_mutex_unlock");
}
template <class F>
static F real(const char * name)
{
  return (F)dlsym(RTLD_NEXT, name);
}
static gsl_error_handler_t * current_handler()
{
  static auto f = real<gsl_error_handler_t * (*)(gsl_error_handler_t *)>("gsl_set_error_handler");
  gsl_error_handler_t * h = f(nullptr);
  f(h);
  return h;
}
extern "C" gsl_error_handler_t * gsl_set_error_handler_off(void)
{
  static auto f = real<gsl_error_handler_t * (*)(void)>("gsl_set_error_handler_off");
  sch::point(1);
  return f();
}
extern "C" gsl_error_handler_t * gsl_set_error_handler(gsl_error_handler_t * h)
{
  static auto f = real<gsl_error_handler_t * (*)(gsl_error_handler_t *)>("gsl_set_error_handler");
  sch::point(2);
  return f(h);
}
extern "C" int gsl_integration_qng(const gsl_function * F, double a, double b, double ea, double er, double * r, double * ae, size_t * ne)
{
  static auto f = real<int (*)(const gsl_function *, double, double, double, double, double *, double *, size_t *)>("gsl_integration_qng");
  sch::point(3);
  int rc = f(F, a, b, ea, er, r, ae, ne);
  sch::point(4);
  return rc;
}
extern "C" int pthread_mutex_lock(pthread_mutex_t * m)
{
  if (!real_lock) resolve_mutex();
  if (!sch::S.active || sch::me < 0) return real_lock(m);
  sch::lock_point(m, 10, [&] { return real_trylock(m) == 0; });
  return 0;
}
extern "C" int pthread_mutex_unlock(pthread_mutex_t * m)
{
  if (!real_unlock) resolve_mutex();
  int rc = real_unlock(m);
  if (sch::S.active && sch::me >= 0) sch::unlock_point(m, 12);
  return rc;
}

// libc functions with hidden process-wide state: every call is a scheduling point
#define NR_HOOK(k) sch::point(60 + (k))
#include "nonreentrant.hpp"

// ---------------------------------------------------------------- harness bodies
static bool DRAW_POINTS = false; // L3: every deviate request is a scheduling point (the user's deviate source is a seam)
struct Rnd : bxdecay0::i_random {
  uint64_t phase = 1;
  size_t i = 0;
  double operator()() override
  {
    if (DRAW_POINTS) sch::point(50);
    return vx::stream_value(phase, i++);
  }
};

static double f_smooth(double x, void *) { return std::exp(-x * x); }
static double f_step(double x, void *) { return x < 0.3333 ? 0.0 : 1.0; } // QNG misses its tolerance: GSL_ETOL, twice

static std::string HARNESS;
static int NT = 2;
static int KIND[sch::MAXT] = {0, 1, 0, 0};
static int NCALLS = 1;
static bool NEED_OK = false; // the sequential bodies must run without exception (else the harness would be vacuous)

struct GenCfg {
  bool dbd;
  const char * name;
  int level, mode;
  double mdl_aperture_deg = -1.0; // >= 0: the generator carries its own momentum-direction-lock operation
};
static GenCfg GEN[sch::MAXT];

// L4: the generators are constructed, configured and initialised by the parent thread before the workers start; the workers
// only shoot (a job that configures everything up front and hands the generators to its worker threads)
static bool PREINIT = false;
static bxdecay0::decay0_generator * PRE[sch::MAXT];
static Rnd * PRE_R[sch::MAXT];

static void configure_gen(bxdecay0::decay0_generator & g, int tid)
{
  using bxdecay0::decay0_generator;
  g.set_decay_category(GEN[tid].dbd ? decay0_generator::DECAY_CATEGORY_DBD : decay0_generator::DECAY_CATEGORY_BACKGROUND);
  g.set_decay_isotope(GEN[tid].name);
  if (GEN[tid].dbd) {
    g.set_decay_dbd_level(GEN[tid].level);
    g.set_decay_dbd_mode((bxdecay0::dbd_mode_type)GEN[tid].mode);
  }
}

static void pre_init(int tid)
{
  PRE[tid] = new bxdecay0::decay0_generator;
  PRE_R[tid] = new Rnd;
  PRE_R[tid]->phase = 100 + tid;
  configure_gen(*PRE[tid], tid);
  bool dp = DRAW_POINTS;
  DRAW_POINTS = false; // (the scheduler is not running yet)
  PRE[tid]->initialize(*PRE_R[tid]);
  DRAW_POINTS = dp;
}

static void gen_events(int tid, double * out)
{
  using bxdecay0::decay0_generator;
  if (PREINIT) {
    decay0_generator & g = *PRE[tid];
    Rnd & r = *PRE_R[tid];
    double acc = g.get_to_all_events();
    for (int k = 0; k < 2; k++) {
      bxdecay0::event ev;
      g.shoot(r, ev);
      for (auto & p : ev.get_particles()) acc = acc * 1.0000001 + p.get_px() + 2 * p.get_py() + 3 * p.get_pz() + 5 * p.get_time() + (int)p.get_code();
      out[1 + k] = (double)ev.get_particles().size();
    }
    out[0] = acc;
    out[3] = (double)r.i;
    return;
  }
  decay0_generator g;
  g.set_decay_category(GEN[tid].dbd ? decay0_generator::DECAY_CATEGORY_DBD : decay0_generator::DECAY_CATEGORY_BACKGROUND);
  g.set_decay_isotope(GEN[tid].name);
  if (GEN[tid].dbd) {
    g.set_decay_dbd_level(GEN[tid].level);
    g.set_decay_dbd_mode((bxdecay0::dbd_mode_type)GEN[tid].mode);
  }
  if (GEN[tid].mdl_aperture_deg >= 0) {
    auto op = std::make_shared<bxdecay0::momentum_direction_lock_event_op>();
    op->set(bxdecay0::INVALID_PARTICLE, 0, 0.0, 0.0, 1.0, GEN[tid].mdl_aperture_deg * M_PI / 180.0, false);
    g.add_operation(op);
  }
  Rnd r;
  r.phase = 100 + tid;
  g.initialize(r);
  double acc = g.get_to_all_events();
  for (int k = 0; k < 2; k++) {
    bxdecay0::event ev;
    g.shoot(r, ev);
    for (auto & p : ev.get_particles()) acc = acc * 1.0000001 + p.get_px() + 2 * p.get_py() + 3 * p.get_pz() + 5 * p.get_time() + (int)p.get_code();
    out[1 + k] = (double)ev.get_particles().size();
  }
  out[0] = acc;
  out[3] = (double)r.i;
}

static void body(int tid)
{
  double * out = sch::S.log->result[tid];
  if (HARNESS[1] == '1') {
    for (int c = 0; c < NCALLS; c++) {
      double r = KIND[tid] ? bxdecay0::decay0_gauss(f_step, 0, 1, 1e-9, nullptr) : bxdecay0::decay0_gauss(f_smooth, 0, 1, 1e-4, nullptr);
      out[c] = r;
    }
  } else {
    try {
      gen_events(tid, out);
    } catch (std::exception & e) {
      out[7] = 1; // unexpected exception
    }
  }
}

static gsl_error_handler_t * g_initial_handler = nullptr;
static uint32_t state_hash()
{
  uint32_t h = 2166136261u;
  gsl_error_handler_t * cur = current_handler();
  h = (h ^ (uint32_t)(cur == g_initial_handler ? 1 : (cur == nullptr ? 2 : 3))) * 16777619u;
  for (int i = 0; i < sch::S.nt; i++) h = (h ^ (uint32_t)(sch::S.alive[i] ? sch::S.pc[i] + 1 : 0)) * 16777619u;
  for (int i = 0; i < sch::S.nt; i++) h = (h ^ (uint32_t)(sch::S.waiting_on[i] ? 7 : 3)) * 16777619u;
  return h;
}

// ---------------------------------------------------------------- explorer
struct Outcome {
  bool signalled = false;
  int sig = 0, exitcode = 0;
  bool handler_changed = false;
  bool timeout = false;
};

static sch::Log * LOG;
static double SEQ[sch::MAXT][8];
static long nsched = 0, npruned = 0, nabort = 0, nbadhandler = 0, nwrong = 0, ndeadlock = 0, ntimeout = 0, nhorizon = 0;
static long long total_points = 0;
static std::set<std::pair<uint32_t, int>> seen; // (state hash at a point, preemptions used so far)
static std::map<std::string, std::string> viol;
static std::set<std::string> outcomes;
static std::vector<std::string> samples;
static int BOUND = 2;
static long MAXSCHED = 2000000;
static bool capped = false;

static std::string sched_str(int np)
{
  std::string s;
  for (int i = 0; i < np && i < 400; i++) {
    if (LOG->nen[i] > 1) s += "p" + std::to_string(i) + ":t" + std::to_string(LOG->tid[i]) + "/" + std::to_string(LOG->label[i]) + "->" + std::to_string(LOG->chosen[i]) + " ";
  }
  return s;
}

static Outcome run_one(const std::vector<int> & prefix)
{
  memset(LOG, 0, sizeof(sch::Log));
  Outcome o;
  pid_t p = fork();
  if (p == 0) {
    FILE * f = freopen("/dev/null", "w", stderr);
    (void)f;
    alarm(20);
    if (PREINIT)
      for (int t = 0; t < NT; t++) pre_init(t);
    g_initial_handler = current_handler();
    sch::run_schedule(NT, body, prefix, LOG, state_hash, 3500);
    LOG->user[0] = (current_handler() == g_initial_handler) ? 0 : 1;
    _exit(0);
  }
  int st = 0;
  waitpid(p, &st, 0);
  if (WIFSIGNALED(st)) {
    o.signalled = true;
    o.sig = WTERMSIG(st);
    if (o.sig == SIGALRM) o.timeout = true;
  } else o.exitcode = WEXITSTATUS(st);
  o.handler_changed = LOG->user[0] != 0;
  return o;
}

static void check(const std::vector<int> & prefix, const Outcome & o)
{
  int np = std::min(LOG->npoints, sch::MAXP);
  total_points += np;
  std::string key;
  std::string desc;
  if (o.timeout) { ntimeout++; key = "hang"; desc = "the schedule does not finish (a thread waits outside the scheduler's view, or livelock)"; }
  else if (o.signalled) { nabort++; key = "signal" + std::to_string(o.sig); desc = "the process is killed by signal " + std::to_string(o.sig) + (o.sig == SIGABRT ? " (abort from GSL's default error handler: a quadrature ran while another thread had restored the handler)" : ""); }
  else if (LOG->deadlock) { ndeadlock++; key = "deadlock"; desc = "deadlock: no enabled thread"; }
  else if (LOG->horizon) { nhorizon++; key = "horizon"; desc = "step horizon exceeded"; }
  else if (LOG->divergence) { fprintf(stdout, "HARNESS-ERROR replay divergence\n"); exit(3); }
  else {
    if (o.handler_changed) { nbadhandler++; key = "handler"; desc = "after all threads finished the process-wide GSL error handler is not the one installed before"; }
    for (int t = 0; t < NT && key.empty(); t++)
      for (int k = 0; k < 8; k++) {
        double a = LOG->result[t][k], b = SEQ[t][k];
        if (!((std::isnan(a) && std::isnan(b)) || a == b)) {
          nwrong++;
          key = "result";
          desc = "thread " + std::to_string(t) + " observation #" + std::to_string(k) + " is " + std::to_string(a) + ", sequentially " + std::to_string(b);
          break;
        }
      }
  }
  outcomes.insert(key.empty() ? "ok" : key);
  if (!key.empty() && !viol.count(key)) viol[key] = desc + "; schedule (point:thread/label->choice): " + sched_str(np);
  if (samples.size() < 3 && np > 4) samples.push_back(sched_str(np));
}

static double BUDGET = 1e18, T0 = 0;
static double now_s()
{
  struct timespec ts;
  clock_gettime(CLOCK_MONOTONIC, &ts);
  return ts.tv_sec + 1e-9 * ts.tv_nsec;
}
static void explore(const std::vector<int> & prefix, int cost_before)
{
  if (nsched >= MAXSCHED) { capped = true; return; }
  // wall-clock budget: a library with many more synchronisation points than expected makes the schedule space explode;
  // what was explored (and any violation met) is reported, the run is marked as capped
  if (now_s() - T0 > BUDGET) { capped = true; return; }
  Outcome o = run_one(prefix);
  nsched++;
  check(prefix, o);
  int np = std::min(LOG->npoints, sch::MAXP);
  std::vector<unsigned char> nen(LOG->nen, LOG->nen + np), ch(LOG->chosen, LOG->chosen + np), re(LOG->run_en, LOG->run_en + np);
  std::vector<uint32_t> hs(LOG->hash, LOG->hash + np);
  // cost (preemptions) accumulated along the executed schedule
  int cost = cost_before;
  for (int i = (int)prefix.size(); i < np; i++) {
    // state-hash pruning: the same observable state with no more budget left than before has equal futures
    auto k = std::make_pair(hs[i], cost);
    if (!seen.insert(k).second) { npruned++; continue; }
    for (int alt = 1; alt < nen[i]; alt++) {
      int c = cost + (re[i] ? 1 : 0);
      if (c > BOUND) continue;
      std::vector<int> q(ch.begin(), ch.begin() + i);
      q.push_back(alt);
      explore(q, c);
      if (capped) return;
    }
  }
}

int main(int argc, char ** argv)
{
  std::string out = "/dev/stdout";
  HARNESS = "l1a";
  for (int i = 1; i < argc; i++) {
    std::string a = argv[i];
    auto nxt = [&]() { return std::string(i + 1 < argc ? argv[++i] : ""); };
    if (a == "--harness") HARNESS = nxt();
    else if (a == "--bound") BOUND = atoi(nxt().c_str());
    else if (a == "--out") out = nxt();
    else if (a == "--max-schedules") MAXSCHED = atol(nxt().c_str());
    else if (a == "--budget") BUDGET = atof(nxt().c_str());
  }
  setenv("BXDECAY0_RESOURCE_DIR", "/repo/resources", 0);
  if (HARNESS == "l1a") { NT = 2; KIND[0] = 0; KIND[1] = 1; NCALLS = 1; }
  else if (HARNESS == "l1b") { NT = 3; KIND[0] = 0; KIND[1] = 1; KIND[2] = 0; NCALLS = 1; }
  else if (HARNESS == "l1c") { NT = 2; KIND[0] = 1; KIND[1] = 0; NCALLS = 2; }
  else if (HARNESS == "l2a") { NT = 2; GEN[0] = {true, "Cd106", 0, 10}; GEN[1] = {false, "Co60", 0, 0}; }
  else if (HARNESS == "l2b") { NT = 2; GEN[0] = {true, "Cd106", 0, 10}; GEN[1] = {true, "Ru96", 0, 10}; }
  else if (HARNESS == "l2c") { NT = 2; GEN[0] = {true, "Nd148", 5, 4}; GEN[1] = {true, "Nd148", 5, 13}; }  // 7 keV available: a handful of quadratures each
  // L3: two generators that go through the same helper routines (1st-forbidden-unique beta shapes, conversion
  // transitions, pairs), preemption possible at every deviate request
  else if (HARNESS == "l3a") { NT = 2; DRAW_POINTS = true; GEN[0] = {false, "Sr90", 0, 0}; GEN[1] = {false, "K42", 0, 0}; }
  else if (HARNESS == "l3b") { NT = 2; DRAW_POINTS = true; GEN[0] = {false, "Cs137+Ba137m", 0, 0}; GEN[1] = {false, "Y90", 0, 0}; }
  else if (HARNESS == "l3c") { NT = 2; DRAW_POINTS = true; GEN[0] = {false, "Co60", 0, 0}; GEN[1] = {false, "Bi207+Pb207m", 0, 0}; }
  else if (HARNESS == "l3d") { NT = 2; DRAW_POINTS = true; GEN[0] = {true, "Mo100", 0, 1}; GEN[1] = {true, "Nd150", 2, 1}; }
  else if (HARNESS == "l3e") { NT = 2; DRAW_POINTS = true; GEN[0] = {false, "Bi214+Po214", 0, 0}; GEN[1] = {false, "Tl208", 0, 0}; }
  // two gA generators (synthetic datasets through BXDECAY0_DBD_GA_DATA_DIR): table loading from two threads
  else if (HARNESS == "l2e") { NT = 2; GEN[0] = {true, "Mo100", 0, 21}; GEN[1] = {true, "Se82", 0, 22}; NEED_OK = true; }
  else if (HARNESS == "l2f") { NT = 3; GEN[0] = {true, "Mo100", 0, 21}; GEN[1] = {true, "Cd116", 0, 23}; GEN[2] = {true, "Nd150", 0, 24}; NEED_OK = true; }
  // two generators each carrying its own direction lock with another aperture, preemption at every deviate request
  else if (HARNESS == "l3f") { NT = 2; DRAW_POINTS = true; GEN[0] = {false, "Co60", 0, 0, 5.0}; GEN[1] = {false, "Co60", 0, 0, 60.0}; }
  else if (HARNESS == "l3g") { NT = 2; DRAW_POINTS = true; GEN[0] = {true, "Mo100", 0, 1, 20.0}; GEN[1] = {false, "Cs137+Ba137m", 0, 0, 90.0}; }
  else if (HARNESS == "l4a") { NT = 2; PREINIT = true; GEN[0] = {true, "Zr96", 0, 20}; GEN[1] = {true, "Nd150", 0, 20}; NEED_OK = true; }
  else if (HARNESS == "l4b") { NT = 2; PREINIT = true; DRAW_POINTS = true; GEN[0] = {true, "Mo100", 0, 4}; GEN[1] = {false, "Co60", 0, 0}; NEED_OK = true; }
  else if (HARNESS == "l4c") { NT = 3; PREINIT = true; GEN[0] = {true, "Xe136", 0, 20}; GEN[1] = {true, "Cd106", 0, 10}; GEN[2] = {true, "Se82", 0, 5}; NEED_OK = true; }
  else if (HARNESS == "l2d") { NT = 3; GEN[0] = {true, "Cd106", 0, 10}; GEN[1] = {true, "Ru96", 0, 10}; GEN[2] = {false, "Bi207+Pb207m", 0, 0}; }
  else return 2;
  LOG = sch::shared_log();
  // sequential reference: each thread body alone, in a child (same code path, scheduler inactive)
  for (int t = 0; t < NT; t++) {
    memset(LOG, 0, sizeof(sch::Log));
    pid_t p = fork();
    if (p == 0) {
      FILE * f = freopen("/dev/null", "w", stderr);
      (void)f;
      sch::S.log = LOG;
      if (PREINIT) pre_init(t);
      body(t);
      _exit(0);
    }
    int st;
    waitpid(p, &st, 0);
    if (!WIFEXITED(st) || WEXITSTATUS(st) != 0) {
      fprintf(stdout, "HARNESS-ERROR sequential run of thread body %d failed\n", t);
      return 3;
    }
    memcpy(SEQ[t], LOG->result[t], sizeof SEQ[t]);
    if (NEED_OK && SEQ[t][7] != 0) {
      fprintf(stdout, "HARNESS-ERROR sequential thread body %d throws (gA dataset missing?)\n", t);
      return 3;
    }
  }
  // replay discipline: the empty schedule twice, identical logs
  {
    run_one({});
    int np1 = LOG->npoints;
    std::vector<uint32_t> h1(LOG->hash, LOG->hash + std::min(np1, sch::MAXP));
    run_one({});
    if (LOG->npoints != np1 || std::vector<uint32_t>(LOG->hash, LOG->hash + std::min(np1, sch::MAXP)) != h1) {
      fprintf(stdout, "HARNESS-ERROR nondeterministic schedule replay\n");
      return 3;
    }
  }
  T0 = now_s();
  explore({}, 0);
  FILE * fo = fopen(out.c_str(), "w");
  auto js = [](const std::string & s) {
    std::string o = "\"";
    for (char ch : s) {
      if (ch == '"' || ch == '\\') { o += '\\'; o += ch; }
      else if ((unsigned char)ch < 32) o += ' ';
      else o += ch;
    }
    return o + "\"";
  };
  fprintf(fo, "{\"harness\":%s,\"threads\":%d,\"bound\":%d,\"schedules\":%ld,\"pruned_points\":%ld,\"states\":%zu,\"transitions\":%lld,\"aborted\":%ld,\"handler_left_changed\":%ld,\"wrong_result\":%ld,"
              "\"deadlocks\":%ld,\"hangs\":%ld,\"horizon\":%ld,\"capped\":%s,\"outcomes\":%zu,\"samples\":[",
          js(HARNESS).c_str(), NT, BOUND, nsched, npruned, seen.size(), total_points, nabort, nbadhandler, nwrong, ndeadlock, ntimeout, nhorizon, capped ? "true" : "false", outcomes.size());
  for (size_t k = 0; k < samples.size(); k++) fprintf(fo, "%s%s", k ? "," : "", js(samples[k]).c_str());
  fprintf(fo, "],\"violations\":[");
  bool first = true;
  for (auto & kv : viol) {
    fprintf(fo, "%s{\"key\":%s,\"text\":%s}", first ? "" : ",", js(HARNESS + ":" + kv.first).c_str(), js(kv.second).c_str());
    first = false;
  }
  fprintf(fo, "]}\n");
  fclose(fo);
  return 0;
}
