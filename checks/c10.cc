// c10 — momentum-direction lock only re-orients (DESIGN §2 C10): full product of events x cone axes x
// apertures x rectangular half-angles x species filters x ranks x error flag x configuration entry points x a
// grid of (phi_C, cos theta_C) deviates, with geometric invariants on every application, plus generator-level
// runs (operation registered vs not registered on the same deviate stream).
//
//   c10 --out FILE [--full]
#include "dxcore.hpp"
#include "pool.hpp"
#include <bxdecay0/mdl_event_op.h>
#include <memory>

using bxdecay0::event;
using bxdecay0::particle;
typedef bxdecay0::momentum_direction_lock_event_op MDL;

struct V3 { double x, y, z; };
static V3 mom(const particle & p) { return {p.get_px(), p.get_py(), p.get_pz()}; }
static double dot(V3 a, V3 b) { return a.x * b.x + a.y * b.y + a.z * b.z; }
static V3 cross(V3 a, V3 b) { return {a.y * b.z - a.z * b.y, a.z * b.x - a.x * b.z, a.x * b.y - a.y * b.x}; }
static double norm(V3 a) { return std::sqrt(dot(a, a)); }

static event make_event(const std::vector<std::pair<int, V3>> & ps)
{
  event e;
  e.set_generator("synthetic");
  e.set_time(0.0);
  double t = 0;
  for (auto & q : ps) {
    particle p;
    p.set_code((bxdecay0::particle_code)q.first);
    p.set_time(t);
    t += 1e-9;
    p.set_momentum(q.second.x, q.second.y, q.second.z);
    e.add_particle(p);
  }
  return e;
}

static bool bit_identical(const event & a, const event & b)
{
  if (a.get_particles().size() != b.get_particles().size()) return false;
  for (size_t k = 0; k < a.get_particles().size(); k++) {
    const particle &p = a.get_particles()[k], &q = b.get_particles()[k];
    if (p.get_code() != q.get_code() || p.get_time() != q.get_time() || p.get_px() != q.get_px() || p.get_py() != q.get_py() || p.get_pz() != q.get_pz()) return false;
  }
  return a.get_time() == b.get_time() && a.get_generator() == b.get_generator();
}

struct Setup {
  int entry;      // 0 set(axis) 1 set(phi,theta) 2 rect(axis) 3 rect(phi,theta) 4 set(config_type)
  int code;       // 0 = all
  int rank;
  V3 axis;        // not necessarily normalised
  double a1, a2;  // a2 < 0: no rectangular cut
  bool err;
  std::string describe() const
  {
    char b[256];
    static const char * en[] = {"set(code,rank,axis,aperture)", "set(code,rank,phi,theta,aperture)", "set_with_aperture_rectangular_cut(axis)", "set_with_aperture_rectangular_cut(phi,theta)", "set(config_type)"};
    snprintf(b, sizeof b, "%s code=%d rank=%d axis=(%g,%g,%g) aperture=%.6g aperture2=%.6g error_on_missing=%d", en[entry], code, rank, axis.x, axis.y, axis.z, a1, a2, (int)err);
    return b;
  }
};

static const char * label_of(int code)
{
  switch (code) {
  case 1: return "gamma";
  case 2: return "e+";
  case 3: return "e-";
  case 47: return "alpha";
  case 13: return "neutron";
  case 14: return "proton";
  default: return "all";
  }
}

// configure the operation through the chosen entry point; returns false (and why) if it refuses
static bool configure(MDL & op, const Setup & s, std::string & why)
{
  double n = norm(s.axis);
  double theta = std::acos(s.axis.z / n), phi = std::atan2(s.axis.y, s.axis.x);
  try {
    switch (s.entry) {
    case 0: op.set((bxdecay0::particle_code)s.code, s.rank, s.axis.x, s.axis.y, s.axis.z, s.a1, s.err); break;
    case 1: op.set((bxdecay0::particle_code)s.code, s.rank, phi, theta, s.a1, s.err); break;
    case 2: op.set_with_aperture_rectangular_cut((bxdecay0::particle_code)s.code, s.rank, s.axis.x, s.axis.y, s.axis.z, s.a1, s.a2, s.err); break;
    case 3: op.set_with_aperture_rectangular_cut((bxdecay0::particle_code)s.code, s.rank, phi, theta, s.a1, s.a2, s.err); break;
    case 4: {
      MDL::config_type c;
      c.particle_label = label_of(s.code);
      c.target_particle_rank = s.rank;
      c.cone_phi_degree = phi * 180.0 / M_PI;
      c.cone_theta_degree = theta * 180.0 / M_PI;
      c.cone_aperture_degree = s.a1 * 180.0 / M_PI;
      c.cone_aperture2_degree = s.a2 < 0 ? -1.0 : s.a2 * 180.0 / M_PI;
      c.error_on_missing_particle = s.err;
      op.set(c);
      break;
    }
    }
  } catch (std::exception & e) {
    why = e.what();
    return false;
  }
  return true;
}

// direction inside the requested cone / rectangular window (cone frame built independently of the library)
static std::string inside(const Setup & s, V3 d)
{
  double n = norm(s.axis);
  V3 ez = {s.axis.x / n, s.axis.y / n, s.axis.z / n};
  double theta = std::acos(ez.z), phi = std::atan2(ez.y, ez.x);
  V3 ex = {std::cos(theta) * std::cos(phi), std::cos(theta) * std::sin(phi), -std::sin(theta)};
  V3 ey = {-std::sin(phi), std::cos(phi), 0.0};
  double dn = norm(d);
  if (dn == 0) return "";
  double cz = dot(d, ez) / dn, cx = dot(d, ex) / dn, cy = dot(d, ey) / dn;
  char b[200];
  if (s.a2 < 0) {
    double ang = std::acos(std::max(-1.0, std::min(1.0, cz)));
    if (ang > s.a1 + 1e-7) {
      snprintf(b, sizeof b, "direction is %.9g rad off the cone axis, aperture %.9g", ang, s.a1);
      return b;
    }
    return "";
  }
  if (cz <= 0) return "direction points away from the cone axis (rectangular window)";
  double x = cx / cz, y = cy / cz;
  if (std::fabs(x) > std::tan(s.a1) + 1e-7) {
    snprintf(b, sizeof b, "first half-angle not honoured: |tan x|=%.9g > tan(%.9g)=%.9g", std::fabs(x), s.a1, std::tan(s.a1));
    return b;
  }
  if (std::fabs(y) > std::tan(s.a2) + 1e-7) {
    snprintf(b, sizeof b, "second half-angle not honoured: |tan y|=%.9g > tan(%.9g)=%.9g", std::fabs(y), s.a2, std::tan(s.a2));
    return b;
  }
  return "";
}

struct Stats {
  long applications = 0, target_hits = 0, selection_hits = 0, nothing = 0, refused_setups = 0, threw_missing = 0, gen_runs = 0;
  std::map<std::string, std::string> viol;
  std::vector<std::string> samples;
  void V(const std::string & k, const std::string & t)
  {
    if (!viol.count(k) && viol.size() < 300) viol[k] = t;
  }
};

static std::string setup_key(const Setup & s)
{
  char b[160];
  snprintf(b, sizeof b, "entry%d:code%d:rank%d:a1=%.4g:a2=%.4g", s.entry, s.code, s.rank, s.a1, s.a2);
  return b;
}

// apply op to a copy of `before` with the first two deviates forced; check all invariants
static void check_application(MDL & op, const Setup & s, const event & before, const std::string & evname, double u0, double u1, Stats & S)
{
  event after = before;
  Forced f;
  f[0] = u0;
  f[1] = u1;
  PortRand r;
  r.s.forced = &f;
  r.s.phase = PHASE;
  r.horizon = 20000;
  S.applications++;
  std::string ctx = "event " + evname + ", " + s.describe() + ", deviates (" + std::to_string(u0) + "," + std::to_string(u1) + ")";
  std::string key = "mdl:" + evname + ":" + setup_key(s);
  // which particles are selected, independently
  std::vector<int> sel;
  {
    int rank = 0;
    for (size_t k = 0; k < before.get_particles().size(); k++) {
      bool m = (s.code == 0) || ((int)before.get_particles()[k].get_code() == s.code);
      if (!m) continue;
      if (s.rank < 0) sel.push_back((int)k);
      else if (rank == s.rank) { sel.push_back((int)k); break; }
      rank++;
    }
    if (s.rank >= 0 && sel.size() != 1) sel.clear();
  }
  // an addressed particle at rest has no direction to lock: that case is probed once, on its own (see main)
  for (int k : sel)
    if (norm(mom(before.get_particles()[k])) == 0.0) return;
  bool threw = false;
  std::string what;
  try {
    op(r, after);
  } catch (HorizonHit &) {
    S.V(key + ":no-termination", ctx + ": the operation does not finish within 20000 deviates");
    return;
  } catch (std::exception & e) {
    threw = true;
    what = e.what();
  }
  if (sel.empty()) {
    S.nothing++;
    if (s.err) {
      if (!threw) S.V(key + ":missing-no-error", ctx + ": nothing selected, error requested, no error raised");
      else S.threw_missing++;
    } else if (threw) S.V(key + ":missing-error", ctx + ": nothing selected, no error requested, but: " + what);
    if (!bit_identical(before, after)) S.V(key + ":missing-changed", ctx + ": nothing selected but the event changed");
    if (op.get_last_target_index() != -1) S.V(key + ":target-index", ctx + ": get_last_target_index() != -1 with nothing selected");
    if (r.i != 0) S.V(key + ":draws", ctx + ": deviates consumed although nothing was selected");
    return;
  }
  if (threw) {
    S.V(key + ":exception", ctx + ": unexpected exception: " + what);
    return;
  }
  size_t n = before.get_particles().size();
  if (after.get_particles().size() != n) {
    S.V(key + ":count", ctx + ": number of particles changed");
    return;
  }
  if (after.get_time() != before.get_time() || after.get_generator() != before.get_generator()) S.V(key + ":event-fields", ctx + ": event time or label changed");
  for (size_t k = 0; k < n; k++) {
    const particle &p = before.get_particles()[k], &q = after.get_particles()[k];
    if (p.get_code() != q.get_code()) S.V(key + ":species", ctx + ": species of particle " + std::to_string(k) + " changed");
    if (p.get_time() != q.get_time()) S.V(key + ":time", ctx + ": time of particle " + std::to_string(k) + " changed");
    double a = norm(mom(p)), b = norm(mom(q));
    if (!(std::fabs(a - b) <= 1e-11 * a + 3e-15)) {
      char bb[120];
      snprintf(bb, sizeof bb, ": |p| of particle %zu changed from %.17g to %.17g", k, a, b);
      S.V(key + ":magnitude", ctx + bb);
    }
  }
  if (s.rank >= 0) {
    S.target_hits++;
    int ti = sel[0];
    if (op.get_last_target_index() != ti) S.V(key + ":target-index", ctx + ": get_last_target_index()=" + std::to_string(op.get_last_target_index()) + ", target is " + std::to_string(ti));
    // rigid rotation: pairwise dot products and triple products preserved
    for (size_t i = 0; i < n; i++)
      for (size_t j = i + 1; j < n; j++) {
        V3 a = mom(before.get_particles()[i]), b = mom(before.get_particles()[j]);
        V3 a2 = mom(after.get_particles()[i]), b2 = mom(after.get_particles()[j]);
        if (!(std::fabs(dot(a, b) - dot(a2, b2)) <= 1e-10 * norm(a) * norm(b) + 1e-14)) {
          S.V(key + ":angles", ctx + ": the angle between particles " + std::to_string(i) + " and " + std::to_string(j) + " changed (not a rigid rotation)");
        }
        for (size_t k = j + 1; k < n; k++) {
          V3 c = mom(before.get_particles()[k]), c2 = mom(after.get_particles()[k]);
          double t1 = dot(a, cross(b, c)), t2 = dot(a2, cross(b2, c2));
          if (!(std::fabs(t1 - t2) <= 1e-10 * norm(a) * norm(b) * norm(c) + 1e-14)) S.V(key + ":handedness", ctx + ": triple product of particles changed (reflection, not a rotation)");
        }
      }
    std::string w = inside(s, mom(after.get_particles()[ti]));
    if (!w.empty()) S.V(key + ":cone", ctx + ": target " + w);
  } else {
    S.selection_hits++;
    std::set<int> ss(sel.begin(), sel.end());
    for (size_t k = 0; k < n; k++) {
      const particle &p = before.get_particles()[k], &q = after.get_particles()[k];
      if (ss.count((int)k)) {
        std::string w = inside(s, mom(q));
        if (!w.empty()) S.V(key + ":cone", ctx + ": selected particle " + std::to_string(k) + " " + w);
      } else if (p.get_px() != q.get_px() || p.get_py() != q.get_py() || p.get_pz() != q.get_pz()) {
        S.V(key + ":unselected-touched", ctx + ": unselected particle " + std::to_string(k) + " was modified");
      }
    }
    if (op.get_last_target_index() != -1) S.V(key + ":target-index", ctx + ": get_last_target_index() != -1 in selection mode");
  }
  if (S.samples.size() < 4 && n >= 2 && s.a2 > 0 && u0 > 0.4 && u0 < 0.6) S.samples.push_back(ctx);
}

// generator-level: the decay sample must be the one produced without the operation
static void generator_level(const Config & c, const Setup & s, uint64_t phase, Stats & S)
{
  using bxdecay0::decay0_generator;
  auto build = [&](bool with_op, std::shared_ptr<MDL> & opp) {
    std::unique_ptr<decay0_generator> g(new decay0_generator);
    g->set_decay_category(c.dbd() ? decay0_generator::DECAY_CATEGORY_DBD : decay0_generator::DECAY_CATEGORY_BACKGROUND);
    g->set_decay_isotope(c.name);
    if (c.dbd()) {
      g->set_decay_dbd_level(c.level);
      g->set_decay_dbd_mode((bxdecay0::dbd_mode_type)c.mode);
    }
    if (with_op) {
      opp = std::make_shared<MDL>();
      std::string why;
      if (!configure(*opp, s, why)) return std::unique_ptr<decay0_generator>();
      g->add_operation(opp);
    }
    Forced none;
    PortRand r;
    r.s.forced = &none;
    r.s.phase = 4242;
    r.horizon = 3000000;
    g->initialize(r);
    return g;
  };
  std::shared_ptr<MDL> opp, none_op;
  auto g0 = build(false, none_op);
  auto g1 = build(true, opp);
  if (!g1) return;
  Forced none;
  PortRand r0, r1;
  r0.s.forced = &none;
  r0.s.phase = phase;
  r1.s.forced = &none;
  r1.s.phase = phase;
  r1.horizon = r0.horizon = 200000;
  event e0, e1;
  std::string key = "gen:" + c.key() + ":" + setup_key(s);
  std::string ctx = c.key() + " with MDL " + s.describe() + " stream " + std::to_string(phase);
  bool threw1 = false;
  std::string what1;
  try {
    g0->shoot(r0, e0);
    try {
      g1->shoot(r1, e1);
    } catch (HorizonHit &) {
      throw;
    } catch (std::exception & x) {
      threw1 = true;
      what1 = x.what();
    }
  } catch (HorizonHit &) {
    S.V(key + ":no-termination", ctx + ": shot does not finish");
    return;
  } catch (std::exception & x) {
    S.V(key + ":exception", ctx + ": the plain generator throws: " + x.what());
    return;
  }
  {
    // is the requested particle in the plain decay? (the error on a missing particle must reach the caller of shoot())
    int nmatch = 0;
    for (auto & p : e0.get_particles())
      if (s.code == 0 || (int)p.get_code() == s.code) nmatch++;
    bool missing = s.rank < 0 ? nmatch == 0 : nmatch <= s.rank;
    if (threw1 && !(s.err && missing)) S.V(key + ":exception", ctx + ": " + what1);
    if (!threw1 && s.err && missing) S.V(key + ":missing-no-error", ctx + ": the decay lacks the requested particle, an error was requested, shoot() returns normally");
    if (threw1 || (s.err && missing)) { S.gen_runs++; return; }
  }
  S.gen_runs++;
  size_t n = e0.get_particles().size();
  if (e1.get_particles().size() != n) {
    S.V(key + ":decay-sample", ctx + ": the event with the operation has another number of particles than without");
    return;
  }
  if (r1.i < r0.i) S.V(key + ":draws", ctx + ": fewer deviates consumed with the operation than without");
  for (size_t k = 0; k < n; k++) {
    const particle &p = e0.get_particles()[k], &q = e1.get_particles()[k];
    if (p.get_code() != q.get_code() || p.get_time() != q.get_time()) S.V(key + ":decay-sample", ctx + ": species/time of particle " + std::to_string(k) + " differ from the run without the operation");
    double a = norm(mom(p)), b = norm(mom(q));
    if (!(std::fabs(a - b) <= 1e-11 * a + 3e-15)) S.V(key + ":decay-sample", ctx + ": |p| of particle " + std::to_string(k) + " differs from the run without the operation");
  }
  if (s.rank >= 0 && opp->get_last_target_index() >= 0) {
    for (size_t i = 0; i < n; i++)
      for (size_t j = i + 1; j < n; j++) {
        V3 a = mom(e0.get_particles()[i]), b = mom(e0.get_particles()[j]), a2 = mom(e1.get_particles()[i]), b2 = mom(e1.get_particles()[j]);
        if (!(std::fabs(dot(a, b) - dot(a2, b2)) <= 1e-10 * norm(a) * norm(b) + 1e-14)) S.V(key + ":decay-sample", ctx + ": relative angles differ from the run without the operation");
      }
    std::string w = inside(s, mom(e1.get_particles()[opp->get_last_target_index()]));
    if (!w.empty()) S.V(key + ":cone", ctx + ": target " + w);
  }
  if (e1.get_time() != e0.get_time() || e1.get_generator() != e0.get_generator()) S.V(key + ":decay-sample", ctx + ": event time/label differ");
  // the generator with the operation = the plain decay followed by the operation applied to that event with the deviates
  // that come next in the stream (whatever the multiplicity of the event: one-particle events included)
  {
    MDL direct;
    std::string why;
    if (configure(direct, s, why)) {
      event expect = e0;
      PortRand r2;
      r2.s.forced = &none;
      r2.s.phase = phase;
      r2.horizon = 200000;
      r2.i = r0.i;
      bool threw = false;
      try { direct(r2, expect); } catch (std::exception &) { threw = true; }
      if (!threw && (!bit_identical(expect, e1) || r2.i != r1.i))
        S.V(key + ":composition", ctx + ": the event (" + std::to_string(n) + " particle(s)) is not the plain decay with the operation applied to it (deviates " + std::to_string(r1.i) + " vs " + std::to_string(r2.i) + ")");
    }
  }
}

// several operations registered on one generator: the event = the plain decay followed by every operation in registration order,
// each drawing the deviates that come next in the stream (two distinct MDL operations, the same one twice, three of them)
static void generator_multi(const Config & c, const std::vector<Setup> & ss, uint64_t phase, Stats & S)
{
  using bxdecay0::decay0_generator;
  auto build = [&](bool with_ops) {
    std::unique_ptr<decay0_generator> g(new decay0_generator);
    g->set_decay_category(c.dbd() ? decay0_generator::DECAY_CATEGORY_DBD : decay0_generator::DECAY_CATEGORY_BACKGROUND);
    g->set_decay_isotope(c.name);
    if (c.dbd()) {
      g->set_decay_dbd_level(c.level);
      g->set_decay_dbd_mode((bxdecay0::dbd_mode_type)c.mode);
    }
    if (with_ops)
      for (auto & s : ss) {
        auto opp = std::make_shared<MDL>();
        std::string why;
        if (!configure(*opp, s, why)) return std::unique_ptr<decay0_generator>();
        g->add_operation(opp);
      }
    Forced none;
    PortRand r;
    r.s.forced = &none;
    r.s.phase = 4242;
    r.horizon = 3000000;
    g->initialize(r);
    return g;
  };
  auto g0 = build(false);
  auto g1 = build(true);
  if (!g0 || !g1) return;
  std::string key = "gen-multi:" + c.key();
  for (auto & s : ss) key += ":" + setup_key(s);
  std::string ctx = c.key() + " with " + std::to_string(ss.size()) + " MDL operations, stream " + std::to_string(phase);
  if (g1->get_operations().size() != ss.size()) S.V(key + ":registered", ctx + ": " + std::to_string(g1->get_operations().size()) + " operations registered");
  Forced none;
  PortRand r0, r1;
  r0.s.forced = r1.s.forced = &none;
  r0.s.phase = r1.s.phase = phase;
  r0.horizon = r1.horizon = 200000;
  event e0, e1;
  try {
    g0->shoot(r0, e0);
    g1->shoot(r1, e1);
  } catch (HorizonHit &) {
    S.V(key + ":no-termination", ctx + ": shot does not finish");
    return;
  } catch (std::exception & x) {
    S.V(key + ":exception", ctx + ": " + x.what());
    return;
  }
  S.gen_runs++;
  event expect = e0;
  PortRand r2;
  r2.s.forced = &none;
  r2.s.phase = phase;
  r2.horizon = 200000;
  r2.i = r0.i;
  for (auto & s : ss) {
    MDL direct;
    std::string why;
    if (!configure(direct, s, why)) return;
    try { direct(r2, expect); } catch (std::exception &) { return; }
  }
  if (!bit_identical(expect, e1) || r2.i != r1.i)
    S.V(key + ":composition", ctx + ": the event is not the plain decay with the operations applied one after the other (deviates " + std::to_string(r1.i) + " vs " + std::to_string(r2.i) + ")");
}

int main(int argc, char ** argv)
{
  std::string out = "/dev/stdout";
  bool full = false;
  for (int i = 1; i < argc; i++) {
    std::string a = argv[i];
    if (a == "--out" && i + 1 < argc) out = argv[++i];
    else if (a == "--full") full = true;
    else if (a == "--phase" && i + 1 < argc) PHASE = strtoull(argv[++i], nullptr, 10);
  }
  setenv("BXDECAY0_RESOURCE_DIR", "/repo/resources", 0);
  FILE * f = freopen("/dev/null", "w", stderr);
  (void)f;
  // ---- events
  std::vector<std::pair<std::string, event>> events;
  events.push_back({"1e-", make_event({{3, {0.3, -0.2, 0.9}}})});
  events.push_back({"1g-along+z", make_event({{1, {0, 0, 1.3}}})});
  events.push_back({"1g-along-z", make_event({{1, {0, 0, -0.7}}})});
  events.push_back({"2e-", make_event({{3, {0.5, 0.1, -0.3}}, {3, {-0.2, 0.7, 0.4}}})});
  events.push_back({"2collinear", make_event({{3, {0.2, 0.2, 0.2}}, {1, {0.5, 0.5, 0.5}}})});
  events.push_back({"2opposite", make_event({{1, {0, 0.511, 0}}, {1, {0, -0.511, 0}}})});
  events.push_back({"e-g-g", make_event({{3, {0.1, 0.2, 0.3}}, {1, {1.0, -0.4, 0.2}}, {1, {-0.3, 0.3, -1.2}}})});
  events.push_back({"g-e+-e-", make_event({{1, {0.4, 0.4, 0.1}}, {2, {-0.5, 0.2, 0.6}}, {3, {0.25, -0.75, 0.1}}})});
  events.push_back({"a-g", make_event({{47, {100.0, -50.0, 120.0}}, {1, {0.05, 0.02, -0.01}}})});
  events.push_back({"4mix", make_event({{3, {0.9, 0, 0}}, {3, {0, 0.8, 0}}, {1, {0, 0, 0.7}}, {2, {0.3, 0.3, -0.3}}})});
  events.push_back({"tiny", make_event({{3, {1e-9, -2e-9, 1.5e-9}}, {1, {0.3, 0.1, 0.2}}})});
  events.push_back({"n-p-e+", make_event({{13, {0.02, 0.01, -0.03}}, {14, {10.0, 5.0, -2.0}}, {2, {0.4, -0.1, 0.2}}})});
  events.push_back({"4e-", make_event({{3, {0.3, 0.1, 0.5}}, {3, {-0.3, 0.4, 0.2}}, {3, {0.1, -0.6, 0.3}}, {3, {-0.2, -0.1, -0.7}}})});
  // a particle at rest in front of the others (its direction is undefined: only the other invariants apply to it); kept out of the
  // shared list: used in the direct applications (setups that address it are skipped) and in one dedicated probe
  const event rest_ev = make_event({{3, {0, 0, 0}}, {1, {0.4, 0.1, 0.2}}, {3, {0.3, -0.2, 0.5}}});
  // ---- axes
  std::vector<V3> axes = {{1, 0, 0}, {-1, 0, 0}, {0, 1, 0}, {0, -1, 0}, {0, 0, 1}, {0, 0, -1}, {1, 1, 1}, {1e-9, 0, 1}, {0.3, -0.8, 0.2}, {-2, 1, -3}, {0, 0, 5}, {-0.5, -0.5, 0.1}, {0.6, 0, -0.8}, {1, 1e-12, -1e-12}};
  std::vector<double> apertures = {0.0, 1e-3, 0.3, M_PI / 2, 2.0, M_PI - 1e-3};
  std::vector<std::pair<double, double>> rects = {{0.2, 0.1}, {0.1, 0.2}, {1.0, 0.05}, {0.05, 1.0}, {0.7, 0.7}, {0.0, 0.3}, {0.3, 0.0}};
  std::vector<int> codes = {0, 3, 1, 47, 2};
  std::vector<int> ranks = {-1, 0, 1, 5};
  std::vector<double> grid = {1e-12, 0.17, 0.4, 0.63, 0.88, 1 - 1e-12};
  if (!full) {
    axes = {{1, 0, 0}, {0, 1, 0}, {0, 0, 1}, {0, 0, -1}, {1, 1, 1}, {1e-9, 0, 1}, {-2, 1, -3}, {0, -0.6, 0.8}};
    grid = {1e-12, 0.4, 0.88, 1 - 1e-12};
  }
  Stats S;
  // ---- direct applications
  for (size_t ai = 0; ai < axes.size(); ai++)
    for (int code : codes)
      for (int rank : ranks)
        for (int err = 0; err < 2; err++) {
          std::vector<Setup> setups;
          for (double a : apertures)
            for (int entry : {0, 1, 4}) setups.push_back({entry, code, rank, axes[ai], a, -1.0, err != 0});
          for (auto & rc : rects)
            for (int entry : {2, 3, 4}) setups.push_back({entry, code, rank, axes[ai], rc.first, rc.second, err != 0});
          for (auto & s : setups) {
            MDL op;
            std::string why;
            if (!configure(op, s, why)) {
              // a refusal is only legitimate for a degenerate (zero-width) rectangular window
              S.refused_setups++;
              if (!(s.a2 >= 0 && (s.a1 == 0.0 || s.a2 == 0.0))) S.V("setup:" + setup_key(s), s.describe() + ": configuration refused: " + why);
              continue;
            }
            for (auto & ev : events)
              for (double u0 : grid)
                for (double u1 : grid) check_application(op, s, ev.second, ev.first, u0, u1, S);
            for (double u0 : grid)
              for (double u1 : grid) check_application(op, s, rest_ev, "rest-g-e-", u0, u1, S);
          }
        }
  // ---- the addressed particle is at rest: whatever the operation does (nothing, or an error), it must not destroy the event
  for (int rank : {0, -1}) {
    MDL op;
    op.set(bxdecay0::ELECTRON, rank, 1.0, 0.0, 0.0, 0.3, false);
    event ev = rest_ev;
    Forced none;
    PortRand r;
    r.s.forced = &none;
    r.s.phase = PHASE;
    r.horizon = 20000;
    S.applications++;
    bool threw = false;
    try { op(r, ev); } catch (std::exception &) { threw = true; }
    bool finite = true;
    for (auto & p : ev.get_particles()) finite = finite && std::isfinite(p.get_px()) && std::isfinite(p.get_py()) && std::isfinite(p.get_pz());
    if (!threw && !finite)
      S.V(std::string("mdl:addressed-particle-at-rest:rank") + std::to_string(rank), std::string("event [e- at rest, gamma, e-], electrons addressed (rank ") + std::to_string(rank)
                                                                                         + "): no error is raised and the momenta of the event become NaN");
  }
  // ---- every label of the label-based entry point selects the species the code-based entry point selects with the
  //      corresponding code (short and long spellings; unknown labels are refused)
  {
    static const struct { const char * label; int code; } LAB[] = {{"g", 1}, {"gamma", 1}, {"e+", 2}, {"positron", 2}, {"e-", 3}, {"electron", 3}, {"n", 13}, {"neutron", 13},
                                                                    {"p", 14}, {"proton", 14}, {"a", 47}, {"alpha", 47}, {"*", 0}, {"all", 0}};
    for (auto & lc : LAB)
      for (int rank : {-1, 0, 1})
        for (auto & ev : events) {
          MDL byl, byc;
          MDL::config_type c;
          c.particle_label = lc.label;
          c.target_particle_rank = rank;
          c.cone_phi_degree = 30.0;
          c.cone_theta_degree = 60.0;
          c.cone_aperture_degree = 8.0;
          c.error_on_missing_particle = false;
          std::string key = std::string("mdl:label:") + lc.label;
          try {
            byl.set(c);
            byc.set((bxdecay0::particle_code)lc.code, rank, 30.0 * M_PI / 180.0, 60.0 * M_PI / 180.0, 8.0 * M_PI / 180.0, false);
          } catch (std::exception & e) {
            S.V(key + ":refused", std::string("label '") + lc.label + "' is refused: " + e.what());
            continue;
          }
          for (uint64_t ph : {(uint64_t)11, (uint64_t)12}) {
            event e1 = ev.second, e2 = ev.second;
            Forced none;
            PortRand r1, r2;
            r1.s.forced = r2.s.forced = &none;
            r1.s.phase = r2.s.phase = ph;
            r1.horizon = r2.horizon = 20000;
            bool t1 = false, t2 = false;
            try { byl(r1, e1); } catch (std::exception &) { t1 = true; }
            try { byc(r2, e2); } catch (std::exception &) { t2 = true; }
            S.applications++;
            if (t1 != t2 || !bit_identical(e1, e2) || r1.i != r2.i)
              S.V(key + ":species", std::string("event ") + ev.first + ", rank " + std::to_string(rank) + ": the operation configured with label '" + lc.label + "' does not act like the one configured with particle code "
                                        + std::to_string(lc.code));
          }
        }
    for (const char * bad : {"", "E-", "electrons", "e", "gammas", "alpha ", "x"}) {
      MDL op;
      MDL::config_type c;
      c.particle_label = bad;
      c.cone_aperture_degree = 8.0;
      bool threw = false;
      try { op.set(c); } catch (std::exception &) { threw = true; }
      if (!threw) S.V(std::string("mdl:label:unknown:") + bad, std::string("unknown particle label '") + bad + "' is accepted");
    }
  }
  // ---- reconfiguration chains: one operation object configured twice (and reset in between or not) must behave
  //      exactly like a fresh object holding the second configuration (no stale field of the first survives)
  {
    std::vector<Setup> rs;
    V3 ax1 = {1, 0, 0}, ax2 = {0.3, -0.8, 0.2};
    for (int entry : {0, 1, 4}) rs.push_back({entry, 0, 0, ax1, 0.2, -1.0, false});
    for (int entry : {2, 3, 4}) rs.push_back({entry, 0, 0, ax2, 0.2, 0.9, false});
    for (int entry : {2, 4}) rs.push_back({entry, 3, -1, ax1, 0.9, 0.1, false});
    rs.push_back({0, 1, 1, ax2, 1.2, -1.0, true});
    rs.push_back({0, 3, -1, ax2, 0.05, -1.0, false});
    for (size_t a = 0; a < rs.size(); a++)
      for (size_t b = 0; b < rs.size(); b++)
        for (int with_reset = 0; with_reset < 2; with_reset++)
          for (auto & ev : events) {
            MDL chained, fresh;
            std::string why;
            if (!configure(chained, rs[a], why)) continue;
            {
              // use it once with the first configuration
              event tmp = ev.second;
              Forced none;
              PortRand r0;
              r0.s.forced = &none;
              r0.s.phase = 99;
              r0.horizon = 20000;
              try { chained(r0, tmp); } catch (...) {}
            }
            if (with_reset) chained.reset();
            if (!configure(chained, rs[b], why) || !configure(fresh, rs[b], why)) continue;
            for (uint64_t ph : {(uint64_t)5, (uint64_t)6, (uint64_t)7}) {
              event e1 = ev.second, e2 = ev.second;
              Forced none;
              PortRand r1, r2;
              r1.s.forced = r2.s.forced = &none;
              r1.s.phase = r2.s.phase = ph;
              r1.horizon = r2.horizon = 20000;
              bool t1 = false, t2 = false;
              try { chained(r1, e1); } catch (HorizonHit &) { t1 = true; } catch (std::exception &) { t1 = true; }
              try { fresh(r2, e2); } catch (HorizonHit &) { t2 = true; } catch (std::exception &) { t2 = true; }
              S.applications++;
              if (t1 != t2 || r1.i != r2.i || !bit_identical(e1, e2) || chained.get_last_target_index() != fresh.get_last_target_index())
                S.V("reconf:" + setup_key(rs[a]) + "->" + setup_key(rs[b]) + (with_reset ? ":reset" : ""),
                    "event " + ev.first + ": an operation configured with [" + rs[a].describe() + "]" + (with_reset ? ", reset" : "") + " and then with [" + rs[b].describe()
                        + "] behaves differently from a fresh operation holding the second configuration (stream " + std::to_string(ph) + ")");
            }
          }
  }
  // ---- rejection loop of the rectangular window: K rejected candidates followed by an accepted one must give exactly the
  //      event of the accepted candidate alone, whatever K (a bounded retry that falls through is seen at its bound)
  {
    long scripted = 0;
    std::vector<V3> rax = {{1, 0, 0}, {0, 0, 1}, {0.3, -0.8, 0.2}};
    std::vector<std::pair<double, double>> rrects = {{1.0, 0.05}, {0.05, 1.0}, {0.2, 0.1}, {1.4, 0.02}};
    std::vector<long> Ks = {1, 2, 3, 5, 10, 20, 50, 99, 100, 101, 127, 128, 129, 255, 256, 257, 500, 999, 1000, 1001, 1023, 1024, 4095, 4096, 4097};
    std::vector<double> g2 = {1e-12, 0.02, 0.1, 0.25, 0.4, 0.5, 0.6, 0.75, 0.9, 0.98, 1 - 1e-12};
    for (auto & ax : rax)
      for (auto & rc : rrects)
        for (int variant = 0; variant < 2; variant++) {
          // variant 0: target mode on a 3-particle event (rank 0); variant 1: selection mode on a one-particle event
          Setup st{2, variant == 0 ? 3 : 0, variant == 0 ? 0 : -1, ax, rc.first, rc.second, false};
          const event & ev0 = variant == 0 ? events[6].second : events[0].second;
          MDL op;
          std::string why;
          if (!configure(op, st, why)) continue;
          auto apply = [&](const Forced & f, event & e, size_t & draws) {
            e = ev0;
            PortRand r;
            r.s.forced = &f;
            r.s.phase = PHASE;
            r.horizon = 20000;
            try { op(r, e); } catch (HorizonHit &) { draws = (size_t)-1; return false; } catch (std::exception &) { draws = (size_t)-2; return false; }
            draws = r.i;
            return true;
          };
          // classify the grid: accepted at once (2 deviates consumed) or rejected (more)
          std::vector<std::pair<double, double>> acc, rej;
          for (double u0 : g2)
            for (double u1 : g2) {
              Forced f; f[0] = u0; f[1] = u1;
              event e; size_t d;
              if (!apply(f, e, d)) continue;
              (d == 2 ? acc : rej).push_back({u0, u1});
            }
          if (acc.empty() || rej.empty()) continue;
          for (size_t ia = 0; ia < acc.size(); ia += std::max<size_t>(1, acc.size() / 3))
            for (size_t ir = 0; ir < rej.size(); ir += std::max<size_t>(1, rej.size() / 2)) {
              Forced fa; fa[0] = acc[ia].first; fa[1] = acc[ia].second;
              event expect; size_t d0;
              apply(fa, expect, d0);
              for (long K : Ks) {
                Forced f;
                for (long k = 0; k < K; k++) { f[2 * k] = rej[ir].first; f[2 * k + 1] = rej[ir].second; }
                f[2 * K] = acc[ia].first; f[2 * K + 1] = acc[ia].second;
                event got; size_t d;
                bool ok = apply(f, got, d);
                scripted++;
                S.applications++;
                char kb[200];
                snprintf(kb, sizeof kb, "mdl:rejection-script:%s", setup_key(st).c_str());
                if (!ok || d != (size_t)(2 * K + 2) || !bit_identical(got, expect)) {
                  char tb[400];
                  snprintf(tb, sizeof tb, "%s: %ld rejected candidates (%.3g,%.3g) then the accepted candidate (%.3g,%.3g): %s (deviates consumed %zd, expected %ld)", st.describe().c_str(), K,
                           rej[ir].first, rej[ir].second, acc[ia].first, acc[ia].second, ok ? "the event is not the one of the accepted candidate alone" : "the operation fails", (ssize_t)d, 2 * K + 2);
                  S.V(kb, tb);
                  break;
                }
              }
            }
        }
    S.samples.push_back("scripted rejection runs: " + std::to_string(scripted));
  }
  // ---- generator-level runs
  {
    std::vector<Config> cfgs;
    for (const char * n : {"Cs137+Ba137m", "Co60", "Bi207+Pb207m", "K40", "Bi214+Po214"}) {
      Config c;
      c.cat = "bkg";
      c.name = n;
      cfgs.push_back(c);
    }
    {
      Config c;
      c.cat = "dbd";
      c.name = "Mo100";
      c.level = 0;
      c.mode = 1;
      cfgs.push_back(c);
      c.level = 2;
      cfgs.push_back(c);
    }
    std::vector<Setup> gs;
    for (int code : {0, 3, 1})
      for (int rank : {-1, 0, 1})
        for (size_t ai : {(size_t)0, (size_t)3}) {
          gs.push_back({0, code, rank, axes[ai], 0.3, -1.0, false});
          gs.push_back({2, code, rank, axes[ai], 0.2, 0.1, false});
          gs.push_back({4, code, rank, axes[ai], 0.1, 0.2, false});
        }
    // the error on a missing particle requested: gammas of Cs137 (absent in ~6 % of its decays), the second gamma and the
    // third electron of other schemes
    for (int code : {1, 3})
      for (int rank : {-1, 0, 1, 2}) gs.push_back({0, code, rank, axes[0], 0.3, -1.0, true});
    int nph = full ? 40 : 8;
    for (auto & c : cfgs)
      for (auto & s : gs)
        for (int ph = 0; ph < nph; ph++) generator_level(c, s, 1000 + 17 * ph + PHASE, S);
    // several operations on one generator
    Setup elx{0, 3, -1, axes[0], 0.3, -1.0, false}, gamy{0, 1, -1, axes[3], 0.2, -1.0, false}, allz{2, 0, 0, axes[2], 0.2, 0.1, false};
    std::vector<std::vector<Setup>> multis = {{elx, gamy}, {gamy, elx}, {elx, elx}, {elx, gamy, allz}, {allz, allz}};
    for (auto & c : cfgs)
      for (auto & ms : multis)
        for (int ph = 0; ph < (full ? 12 : 4); ph++) generator_multi(c, ms, 1000 + 17 * ph + PHASE, S);
  }
  FILE * fo = fopen(out.c_str(), "w");
  fprintf(fo, "{\"applications\":%ld,\"target_hits\":%ld,\"selection_hits\":%ld,\"nothing_selected\":%ld,\"refused_setups\":%ld,\"missing_errors\":%ld,\"generator_runs\":%ld,\"samples\":[", S.applications,
          S.target_hits, S.selection_hits, S.nothing, S.refused_setups, S.threw_missing, S.gen_runs);
  for (size_t k = 0; k < S.samples.size(); k++) fprintf(fo, "%s%s", k ? "," : "", vx::jstr(S.samples[k]).c_str());
  fprintf(fo, "],\"violations\":[");
  bool first = true;
  for (auto & kv : S.viol) {
    fprintf(fo, "%s{\"key\":%s,\"text\":%s}", first ? "" : ",", vx::jstr(kv.first).c_str(), vx::jstr(kv.second).c_str());
    first = false;
  }
  fprintf(fo, "]}\n");
  fclose(fo);
  return 0;
}
