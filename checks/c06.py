"""C06 — a double-beta configuration is accepted iff the reference rules allow it (DESIGN §2 C06)."""
import os, subprocess, json
import dxlib, vlib, gadata


def run(tier, rep):
    exe = vlib.build_harness('checks/c06.cc', 'plain')
    d = vlib.scratch('c06')
    gadir = os.path.join(d, 'ga')
    gadata.install_tree(gadir)
    names = dxlib.dbd_all() + ['Xx99', 'Mo10', '<empty>']
    nf = os.path.join(d, 'names')
    open(nf, 'w').write('\n'.join(names) + '\n')
    out = os.path.join(d, 'out.jsonl')
    env = dict(os.environ)
    env['BXDECAY0_DBD_GA_DATA_DIR'] = gadir
    shots = 3 if tier == 'quick' else 40
    r = subprocess.run([exe, '--names', nf, '--out', out, '--shots', str(shots), '--phase', str(vlib.SEED)], env=env, timeout=3000,
                       stdout=subprocess.PIPE, stderr=subprocess.PIPE, text=True)
    if r.returncode != 0:
        raise SystemExit('HARNESS-ERROR: c06 exited %d %s' % (r.returncode, r.stderr[-1000:]))
    res = vlib.read_jsonl(out)
    cells = accepted = model = shots_n = 0
    samples = []
    for x in res:
        if 'labels' in x:
            if x['label_problems']:
                rep.violation('labels', 'mode labels: ' + x['label_problems'])
            rep.coverage['mode_labels_round_tripped'] = x['labels']
            continue
        if 'crashed' in x:
            rep.violation('dbd:%s:crash' % x['isotope'], 'grid child for isotope %s died: %s' % (x['isotope'], x['crashed']))
            continue
        cells += x['cells']; accepted += x['accepted']; model += x['model_cells']; shots_n += x['shots']
        if x['sample'] and len(samples) < 5:
            samples.append(x['sample'])
        for v in x['violations']:
            rep.violation(v['key'], v['text'])
    if len(res) != len(names) + 1:
        raise SystemExit('HARNESS-ERROR: c06 produced %d records for %d names' % (len(res), len(names)))
    rep.coverage.update({
        'states': cells, 'transitions': cells + shots_n, 'traces_validated_against_impl': model,
        'evaluations': cells, 'distinct_nontrivial': accepted,
        'accepted_cells': accepted, 'shots_checked': shots_n, 'exhaustive': True,
        'samples': samples or [{'note': 'none'}],
        'rule': 'state = one request (isotope of the 51 published + Xx99, Mo10, "" ; level -1..17 ; mode 0..25 ; window none/inside/inverted/above-range) '
                'issued to a fresh decay0_generator; the complete product is enumerated. Expected answer: transpiled GENBBsub with the kernel stubbed '
                '(modes 1..20), README rules for mode 20 and the gA modes (synthetic datasets), window rules; rejected => exception, not initialised, '
                'shoot throws; accepted => %d shots satisfy the C03/C04 invariants; a window on a mode without window support must change nothing' % shots,
        'reference_sha256': vlib.ref_sha(),
    })
    rep.assumptions += ['the acceptance rules of the reference are what the transpiled GENBBsub computes with bb stubbed',
                        'gA acceptance is evaluated against synthetic datasets installed through BXDECAY0_DBD_GA_DATA_DIR',
                        'at library level a window on a mode without window support is documented as ignored ("if available for the chosen mode"); the CLI-level refusal is checked by C13']


def replay(path):
    print(open(path).read())
    return 1
