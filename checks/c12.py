"""C12 — independent generators do not interfere when used from different threads (DESIGN §2 C12)."""
import json, os, re, subprocess
import concurrent.futures as cf
import vlib, gadata


def run(tier, rep):
    exe = vlib.build_harness('checks/c12.cc', 'plain', ['-rdynamic'])
    d = vlib.scratch('c12')
    gadir = os.path.join(d, 'ga')
    gadata.install_tree(gadir)
    senv = dict(os.environ)
    senv['BXDECAY0_DBD_GA_DATA_DIR'] = gadir
    if tier == 'quick':
        jobs = [('l1a', 2), ('l1b', 2), ('l1c', 2), ('l2a', 2), ('l2b', 2), ('l2c', 1), ('l3a', 2), ('l3b', 2), ('l3c', 1), ('l3d', 1), ('l3e', 1), ('l2e', 2), ('l3f', 1), ('l4a', 2), ('l4b', 1)]
    else:
        jobs = [('l1a', 4), ('l1b', 3), ('l1c', 4), ('l2a', 3), ('l2b', 3), ('l2c', 2), ('l2d', 2), ('l3a', 3), ('l3b', 3), ('l3c', 2), ('l3d', 2), ('l3e', 2), ('l2e', 3), ('l2f', 2), ('l3f', 2), ('l3g', 2), ('l4a', 3), ('l4b', 2), ('l4c', 2)]

    def one(j):
        h, b = j
        out = os.path.join(d, '%s_%d.json' % (h, b))
        r = subprocess.run([exe, '--harness', h, '--bound', str(b), '--out', out, '--max-schedules', '400000', '--budget', '90' if tier == 'quick' else '900'], timeout=3300, env=senv,
                           stdout=subprocess.PIPE, stderr=subprocess.PIPE, text=True)
        if r.returncode != 0 or 'HARNESS-ERROR' in r.stdout:
            raise SystemExit('HARNESS-ERROR: c12 %s exited %d %s' % (h, r.returncode, r.stdout[-300:]))
        return json.load(open(out))
    with cf.ThreadPoolExecutor(8) as ex:
        results = list(ex.map(one, jobs))
    sched = states = trans = 0
    outcomes = 0
    samples = []
    exhaustive = True
    per = {}
    for x in results:
        sched += x['schedules']; states += x['states']; trans += x['transitions']
        outcomes = max(outcomes, x['outcomes'])
        exhaustive = exhaustive and not x['capped']
        per['%s(threads=%d,bound=%d)' % (x['harness'], x['threads'], x['bound'])] = x['schedules']
        samples += x['samples'][:1]
        for v in x['violations']:
            rep.violation(v['key'], v['text'])
    # ---- free-running race pass (ThreadSanitizer build of /repo)
    texe = vlib.build_harness('checks/c12_tsan.cc', 'tsan', ['-rdynamic'])
    env = dict(senv)
    env['TSAN_OPTIONS'] = 'halt_on_error=0 exitcode=66 report_signal_unsafe=0'
    reps = 15 if tier == 'quick' else 150

    class R: pass
    r = R()
    r.stderr = ''
    r.stdout = ''
    r.returncode = 0
    for group, nrep, nproc in ((0, reps, 1), (1, 2, 3 if tier == 'quick' else 12), (2, 2, 3 if tier == 'quick' else 12), (3, 2, 2 if tier == 'quick' else 8), (4, 1, 2 if tier == 'quick' else 8), (5, 1, 2 if tier == 'quick' else 8), (6, 1, 1 if tier == 'quick' else 4), (7, 1, 2 if tier == 'quick' else 8)):
        for _ in range(nproc):
            rr = subprocess.run([texe, str(nrep), str(group)], env=env, timeout=3000, stdout=subprocess.PIPE, stderr=subprocess.PIPE, text=True)
            r.stderr += rr.stderr
            if group == 0:
                r.stdout = rr.stdout
            if rr.returncode not in (0, 66) or 'done %d repetitions' % nrep not in rr.stdout:
                r.returncode = rr.returncode if rr.returncode not in (0, 66) else 1
                r.stderr += '\n[group %d exited %d]' % (group, rr.returncode)
            elif rr.returncode == 66 and r.returncode == 0:
                r.returncode = 66
    races = {}
    for m in re.finditer(r'WARNING: ThreadSanitizer: ([^\n(]+).*?(?=\nWARNING: ThreadSanitizer|\nThreadSanitizer: reported|\Z)', r.stderr, re.S):
        body = m.group(0)
        fr = re.search(r'#\d+ (bxdecay0::[\w:~]+)[^\n]*?/repo/(bxdecay0/[\w.]+):(\d+)', body)
        key = '%s@%s' % (m.group(1).strip().replace(' ', '_'), ('%s:%s' % (fr.group(2), fr.group(1))) if fr else 'unknown')
        races.setdefault(key, body[:1800])
    for k, body in sorted(races.items()):
        rep.violation('tsan:' + k, 'ThreadSanitizer report in the free-running pass:\n' + body)
    if 'UNEXPECTED-EXCEPTION' in r.stderr:
        rep.violation('tsan:exception', 'a generator threw when run concurrently: ' + re.search(r'UNEXPECTED-EXCEPTION[^\n]*', r.stderr).group(0))
    if r.returncode not in (0, 66):
        rep.violation('tsan:crash', 'the free-running pass exited with %d: %s' % (r.returncode, r.stderr[-400:]))
    if 'done %d repetitions' % reps not in r.stdout and r.returncode == 0:
        raise SystemExit('HARNESS-ERROR: race pass did not complete')
    rep.coverage.update({
        'states': states, 'transitions': trans, 'traces_validated_against_impl': sched, 'schedules': sched, 'schedules_per_harness': per,
        'evaluations': sched, 'distinct_nontrivial': states, 'distinct_outcomes': outcomes, 'exhaustive': exhaustive,
        'race_pass_repetitions': reps, 'race_reports': len(races), 'samples': samples or ['none'],
        'rule': 'cooperative scheduler over interposed synchronisation points (gsl_set_error_handler_off / gsl_set_error_handler / gsl_integration_qng entry+exit / '
                'pthread_mutex_lock+unlock, a waiting lock is blocked; every call of a libc function with hidden process-wide state - strtok, rand, localtime/gmtime/ctime/asctime, drand48 family, setlocale; in the L3 harnesses also every request to the user-provided deviate source) of the real library; every schedule up to the stated preemption bound is run in a forked child; '
                'pruning by observable state (handler state, per-thread step counters, blocked set) per remaining budget; L1 = threads calling decay0_gauss (smooth '
                'integrand / integrand that makes QNG return GSL_ETOL), L4 = generators initialised by the parent thread, the workers only shoot; L2 = whole generators (construct, configure, initialise, 2 shots; l2e/l2f: gA generators loading synthetic tables) compared with their sequential '
                'events; oracle: no signal, no deadlock, handler restored, sequential results. Plus a free-running ThreadSanitizer pass of 8 concurrent generators '
                '(incl. gA modes, generators with their own direction-lock operations, concurrent resource look-ups and first-use of the plumbing entry points) for unsynchronised accesses the scheduler cannot see',
    })
    rep.assumptions += ['preemptions only at the interposed synchronisation points; sequential consistency (weaker memory-model effects are left to ThreadSanitizer)',
                        'GSL\'s handler variable lives in uninstrumented libgsl: mirrored on an instrumented proxy in the race pass']


def replay(path):
    print(open(path).read())
    return 1
