// c15 — malformed input files raise an error; never a crash, hang or garbage load (DESIGN §2 C15).
// Runs one loader per mutant in a forked child (pool), against the ASan+UBSan build of /repo:
//   kind d0t   : event_reader over the file; every delivered event must satisfy event::is_valid(), bounded count
//   kind pdf   : dbd_gA rejection sampler on <dir> (Test nuclide); on success a grid of shots must stay finite
//   kind ocdf  : dbd_gA inverse-transform sampler on <dir>
//   kind lis   : catalogue loaders with BXDECAY0_RESOURCE_DIR=<dir>; on success non-empty names / consistent modes
//   kind argv  : cl_parser over the argument vector stored one argument per line in the file
// Each mutant line of the list file: "<kind> <path>". Outcome line (JSON): ok / exception / what failed.
#include <bxdecay0/bb_utils.h>
#include <bxdecay0/dbd_gA.h>
#include <bxdecay0/event.h>
#include <bxdecay0/event_reader.h>
#include <bxdecay0/i_random.h>
#include "pool.hpp"
#include "stream.hpp"
#include "../../repo/programs/bxdecay0_driver.cpp"
#include "../../repo/programs/bxdecay0_clparser.cpp"
#include <cmath>
#include <fstream>
#include <sstream>
#include <sys/resource.h>

extern "C" {
#if defined(__SANITIZE_ADDRESS__)
const char * __asan_default_options() { return "halt_on_error=1:detect_leaks=0:max_allocation_size_mb=512:allocator_may_return_null=0:exitcode=77:abort_on_error=0"; }
const char * __ubsan_default_options() { return "halt_on_error=1:exitcode=78:print_stacktrace=1"; }
#endif
}

struct Seq : bxdecay0::i_random {
  std::vector<double> v;
  size_t i = 0;
  double operator()() override
  {
    if (i > 200000) throw std::runtime_error("HORIZON: sampler does not terminate");
    double r = i < v.size() ? v[i] : vx::stream_value(3, i);
    i++;
    return r;
  }
};

static std::string handle(const std::string & kind, const std::string & path)
{
  std::string verdict = "ok", detail;
  try {
    if (kind == "d0t") {
      std::string first_what;
      bool first_threw = false;
      try {
      bxdecay0::event_reader::config_type cfg;
      cfg.event_files.push_back(path);
      bxdecay0::event_reader rd(cfg);
      int n = 0;
      while (rd.has_next_event()) {
        bxdecay0::event ev;
        rd.load_next_event(ev);
        if (!ev.is_valid()) return "{\"verdict\":\"garbage\",\"detail\":\"a delivered event fails event::is_valid()\"}";
        for (auto & p : ev.get_particles()) {
          if (!std::isfinite(p.get_px()) || !std::isfinite(p.get_time())) { /* inf/nan tokens parse as numbers: is_valid decides */ }
          // a species outside the particle-code enumeration (no name, no mass) is garbage whatever is_valid() says
          int cd = (int)p.get_code();
          if (!(cd == 1 || cd == 2 || cd == 3 || cd == 13 || cd == 14 || cd == 47))
            return "{\"verdict\":\"garbage\",\"detail\":\"a delivered event holds a particle of code " + std::to_string(cd) + ", outside the particle-code enumeration\"}";
        }
        if (++n > 64) return "{\"verdict\":\"unbounded\",\"detail\":\"more than 64 events delivered from a two-event file\"}";
      }
      detail = std::to_string(n) + " events";
      } catch (std::exception & e) {
        first_threw = true;
        first_what = e.what();
      }
      // the same file read as a window that starts after the first event (the reader skips records on another path,
      // at configuration time): an error is allowed, a crash is not
      for (int start : {1, 2}) {
        try {
          bxdecay0::event_reader::config_type cfg2;
          cfg2.event_files.push_back(path);
          cfg2.start_event = start;
          cfg2.max_nb_events = 1;
          bxdecay0::event_reader rd2(cfg2);
          int m = 0;
          while (rd2.has_next_event()) {
            bxdecay0::event ev;
            rd2.load_next_event(ev);
            if (!ev.is_valid()) return "{\"verdict\":\"garbage\",\"detail\":\"a delivered event (window starting at " + std::to_string(start) + ") fails event::is_valid()\"}";
            for (auto & p : ev.get_particles()) {
              int cd = (int)p.get_code();
              if (!(cd == 1 || cd == 2 || cd == 3 || cd == 13 || cd == 14 || cd == 47))
                return "{\"verdict\":\"garbage\",\"detail\":\"a delivered event (window starting at " + std::to_string(start) + ") holds a particle of code " + std::to_string(cd) + "\"}";
            }
            if (++m > 1) return "{\"verdict\":\"unbounded\",\"detail\":\"more events delivered than the window allows\"}";
          }
        } catch (std::exception &) {
        }
      }
      if (first_threw) {
        verdict = "exception";
        detail = first_what;
      }
    } else if (kind == "pdf" || kind == "ocdf") {
      setenv("BXDECAY0_DBD_GA_DATA_DIR", path.c_str(), 1);
      bxdecay0::dbd_gA g;
      g.set_nuclide("Test");
      g.set_process(bxdecay0::dbd_gA::PROCESS_G0);
      g.set_shooting(kind == "pdf" ? bxdecay0::dbd_gA::SHOOTING_REJECTION : bxdecay0::dbd_gA::SHOOTING_INVERSE_TRANSFORM_METHOD);
      const double us[] = {1e-12, 0.2, 0.4, 0.6, 0.8, 1 - 1e-12};
      auto tables_finite = [&]() {
        // what the object reports about the tables it loaded must be made of finite numbers
        std::ostringstream os;
        g.print(os, "", "");
        if (kind == "pdf") g.plot_interpolated_pdf(os, 12);
        std::string t = os.str();
        for (auto & ch : t) ch = (char)tolower(ch);
        return t.find("nan") == std::string::npos && t.find("inf") == std::string::npos;
      };
      try {
        g.initialize();
      } catch (std::exception & e) {
        // a refused load must leave no trace: the SAME object, initialised on the unmutated dataset, samples exactly
        // like a new object does (rows kept from the refused file would surface here, or abort inside GSL)
        const char * seed = getenv("C15_GA_SEED");
        if (seed) {
          setenv("BXDECAY0_DBD_GA_DATA_DIR", seed, 1);
          bxdecay0::dbd_gA f;
          f.set_nuclide("Test");
          f.set_process(bxdecay0::dbd_gA::PROCESS_G0);
          f.set_shooting(kind == "pdf" ? bxdecay0::dbd_gA::SHOOTING_REJECTION : bxdecay0::dbd_gA::SHOOTING_INVERSE_TRANSFORM_METHOD);
          bool ok1 = true, ok2 = true;
          try { g.initialize(); } catch (std::exception &) { ok1 = false; }
          try { f.initialize(); } catch (std::exception &) { ok2 = false; }
          if (ok1 != ok2) return std::string("{\"verdict\":\"garbage\",\"detail\":\"after the refused load the same object ") + (ok1 ? "loads" : "cannot load") + " the well-formed dataset, a new object " + (ok2 ? "loads it" : "cannot") + "\"}";
          if (ok1)
            for (double a : us)
              for (double b : us) {
                Seq r1, r2;
                r1.v = {a, b, 0.5};
                r2.v = r1.v;
                double x1 = -1, y1 = -1, x2 = -2, y2 = -2;
                bool t1 = false, t2 = false;
                try { g.shoot_e1_e2(r1, x1, y1); } catch (std::exception &) { t1 = true; }
                try { f.shoot_e1_e2(r2, x2, y2); } catch (std::exception &) { t2 = true; }
                if (t1 != t2 || (!t1 && (x1 != x2 || y1 != y2 || r1.i != r2.i)))
                  return "{\"verdict\":\"garbage\",\"detail\":\"after the refused load the same object, initialised on the well-formed dataset, samples differently from a new object (state left behind)\"}";
              }
        }
        throw;
      }
      if (!tables_finite()) return "{\"verdict\":\"garbage\",\"detail\":\"the loaded table holds non-finite values (print / plot_interpolated_pdf show nan or inf)\"}";
      if (kind == "pdf") {
        // a probability density is non-negative (the interpolation is bilinear: no undershoot), also above the maximum energy sum
        std::ostringstream os;
        g.plot_interpolated_pdf(os, 12);
        std::istringstream is(os.str());
        double x, y, pr;
        while (is >> x >> y >> pr)
          if (pr < 0.0) return "{\"verdict\":\"garbage\",\"detail\":\"the loaded p.d.f. table is negative somewhere (plot_interpolated_pdf)\"}";
      }
      for (double a : us)
        for (double b : us) {
          Seq r;
          r.v = {a, b, 0.5};
          double e1 = 0, e2 = 0;
          try {
            g.shoot_e1_e2(r, e1, e2);
          } catch (std::logic_error &) {
            continue; // "could not find the c.d.f. sample": an error, as allowed
          } catch (std::runtime_error & e) {
            if (std::string(e.what()).find("HORIZON") != std::string::npos)
              return "{\"verdict\":\"unbounded\",\"detail\":\"the loaded table makes the sampler loop without end (200000 deviates consumed)\"}";
            throw;
          }
          if (!std::isfinite(e1) || !std::isfinite(e2) || e1 < 0 || e2 < 0)
            return "{\"verdict\":\"garbage\",\"detail\":\"loaded table yields energies (" + std::to_string(e1) + "," + std::to_string(e2) + ")\"}";
        }
    } else if (kind == "lis") {
      setenv("BXDECAY0_RESOURCE_DIR", path.c_str(), 1);
      for (auto & n : bxdecay0::background_isotopes())
        if (n.empty()) return "{\"verdict\":\"garbage\",\"detail\":\"empty background name\"}";
      for (auto & n : bxdecay0::dbd_isotopes())
        if (n.empty()) return "{\"verdict\":\"garbage\",\"detail\":\"empty dbd name\"}";
      for (auto & kv : bxdecay0::dbd_modes()) {
        if (kv.second.unique_label.empty()) return "{\"verdict\":\"garbage\",\"detail\":\"mode with empty label\"}";
        if (kv.second.description.empty()) return "{\"verdict\":\"garbage\",\"detail\":\"mode record without description (a truncated record is stored)\"}";
        if ((int)kv.first != (int)kv.second.dbd_mode) return "{\"verdict\":\"garbage\",\"detail\":\"mode record stored under another id\"}";
        if (bxdecay0::dbd_mode_from_label(kv.second.unique_label) == bxdecay0::DBDMODE_UNDEF) return "{\"verdict\":\"garbage\",\"detail\":\"label does not map back\"}";
        // every stored field inside its enumeration: identifier 1..24, legacy Decay0 mode 1..20, "undefined" or "not available"
        int id = (int)kv.second.dbd_mode, lg = (int)kv.second.legacy_modebb;
        if (id < (int)bxdecay0::DBDMODE_MIN || id > (int)bxdecay0::DBDMODE_MAX) return "{\"verdict\":\"garbage\",\"detail\":\"mode identifier outside the enumeration\"}";
        // (0 = LEGACY_MODEBB_UNDEF is an enumerator: such a mode is refused later, at initialisation)
        if (!(lg == (int)bxdecay0::LEGACY_MODEBB_NA || lg == (int)bxdecay0::LEGACY_MODEBB_UNDEF || (lg >= (int)bxdecay0::LEGACY_MODEBB_MIN && lg <= (int)bxdecay0::LEGACY_MODEBB_MAX)))
          return "{\"verdict\":\"garbage\",\"detail\":\"legacy mode " + std::to_string(lg) + " outside its enumeration is stored\"}";
      }
      detail = std::to_string(bxdecay0::dbd_modes().size()) + " modes";
    } else if (kind == "argv") {
      std::vector<std::string> args = {"bxdecay0-run"};
      std::ifstream in(path);
      std::string l;
      while (std::getline(in, l)) args.push_back(l);
      std::vector<char *> av;
      for (auto & a : args) av.push_back((char *)a.c_str());
      av.push_back(nullptr);
      bxdecay0::driver::config_type cfg;
      bxdecay0::cl_parser p((int)args.size(), av.data());
      auto st = p.parse(cfg);
      detail = "status " + std::to_string((int)st);
      if (st == bxdecay0::cl_parser::PS_OK) {
        // an accepted command line must make sense to the driver's own sanity checks or be refused by them
        try {
          bxdecay0::driver d(cfg);
        } catch (std::exception &) {
        }
      }
    }
  } catch (std::exception & e) {
    verdict = "exception";
    detail = e.what();
  }
  return "{\"verdict\":" + vx::jstr(verdict) + ",\"detail\":" + vx::jstr(detail.substr(0, 160)) + "}";
}

int main(int argc, char ** argv)
{
  std::string list = argv[1], out = argv[2];
  std::vector<std::pair<std::string, std::string>> items;
  {
    std::ifstream in(list);
    std::string k, p;
    while (in >> k >> p) items.push_back({k, p});
  }
  FILE * ferr = freopen("/dev/null", "w", stderr);
  (void)ferr;
  std::clog.rdbuf(nullptr);
  FILE * fo = fopen(out.c_str(), "w");
  vx::run_pool(items.size(), 16, 10,
               [&](size_t i) {
                 // sanitizer reports of this child go to a file named after the mutant
                 std::string lp = items[i].second + ".san";
                 FILE * f = freopen(lp.c_str(), "w", stderr);
                 (void)f;
                 return "{\"i\":" + std::to_string(i) + ",\"r\":" + handle(items[i].first, items[i].second) + "}";
               },
               [&](size_t, const std::string & r) { fprintf(fo, "%s\n", r.c_str()); },
               [&](size_t i, const std::string & how) { fprintf(fo, "{\"i\":%zu,\"crashed\":%s}\n", i, vx::jstr(how).c_str()); });
  fclose(fo);
  return 0;
}
