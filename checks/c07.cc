// c07 — an event depends only on configuration and deviates, never on history or reuse (DESIGN §2 C07).
// For every configuration: all histories up to a depth over an alphabet of prior API activity (shots into
// fresh / reused / pre-filled events of exact capacity c, reset + re-initialise, other instances created,
// shot, kept alive or destroyed, the instance itself destroyed and rebuilt), each followed by probe shots with
// recorded deviate streams that must equal, bit for bit, the probe of the canonical history
// (fresh generator -> initialise -> probe into a fresh event). Plus one long history (N shots, then probes).
//
//   c07 --cfgfile F --out R.jsonl --depth D [--long N] [--jobs J]
#include "dxcore.hpp"
#include "pool.hpp"
#include <memory>
#include <bxdecay0/mdl_event_op.h>

using bxdecay0::decay0_generator;

static void configure(decay0_generator & g, const Config & c)
{
  g.set_decay_category(c.dbd() ? decay0_generator::DECAY_CATEGORY_DBD : decay0_generator::DECAY_CATEGORY_BACKGROUND);
  g.set_decay_isotope(c.name);
  if (c.dbd()) {
    g.set_decay_dbd_level(c.level);
    g.set_decay_dbd_mode((bxdecay0::dbd_mode_type)c.mode);
    if (c.window()) g.set_decay_dbd_esum_range(c.e1, c.e2);
  }
  if (c.pre == "MDL") {
    // a registered post-generation operation (must be dropped by reset and re-registered exactly once)
    auto op = std::make_shared<bxdecay0::momentum_direction_lock_event_op>();
    op->set(bxdecay0::INVALID_PARTICLE, 0, 1.0, 0.0, 0.0, 0.5, false);
    g.add_operation(op);
  }
}

static void init(decay0_generator & g)
{
  Forced none;
  PortRand r;
  r.s.forced = &none;
  r.s.phase = 4242;
  r.horizon = 3000000;
  g.initialize(r);
}

static Ev to_ev(const bxdecay0::event & ev, size_t ndraws)
{
  Ev e;
  for (auto & p : ev.get_particles()) {
    e.code.push_back((int)p.get_code());
    e.t.push_back(p.get_time());
    e.px.push_back(p.get_px());
    e.py.push_back(p.get_py());
    e.pz.push_back(p.get_pz());
  }
  e.evtime = ev.get_time();
  e.label = ev.get_generator();
  e.ndraws = ndraws;
  return e;
}

static Ev shoot_into(decay0_generator & g, bxdecay0::event & ev, uint64_t phase, const Forced * forced = nullptr)
{
  Forced none;
  PortRand r;
  r.s.forced = forced ? forced : &none;
  r.s.phase = phase;
  r.horizon = 300000;
  try {
    g.shoot(r, ev);
  } catch (HorizonHit &) {
    Ev e;
    e.horizon = true;
    return e;
  } catch (std::exception & x) {
    Ev e;
    e.threw = true;
    e.what = x.what();
    return e;
  }
  return to_ev(ev, r.i);
}

// an event object whose particle vector has capacity exactly c and holds c stale particles
// flavour: bit 0 = carries a (stale) generator label, bit 1 = carries a (stale) event time; an event filled by hand with
// add_particle() only has neither
static bxdecay0::event prefilled(int c, int flavour = 3)
{
  bxdecay0::event tmp;
  if (flavour & 1) tmp.set_generator("stale");
  if (flavour & 2) tmp.set_time(12.5);
  for (int k = 0; k < c; k++) {
    bxdecay0::particle p;
    p.set_code(bxdecay0::GAMMA);
    p.set_time(1.0 + k);
    p.set_momentum(0.1 * (k + 1), -0.2, 0.3);
    tmp.add_particle(p);
  }
  bxdecay0::event e;
  e = tmp; // copy-assignment: capacity == size == c
  return e;
}

static bool same_ev(const Ev & a, const Ev & b)
{
  auto eq = [](const std::vector<double> & x, const std::vector<double> & y) { return x.size() == y.size() && (x.empty() || memcmp(x.data(), y.data(), x.size() * sizeof(double)) == 0); };
  return a.code == b.code && eq(a.px, b.px) && eq(a.py, b.py) && eq(a.pz, b.pz) && eq(a.t, b.t) && a.ndraws == b.ndraws && a.label == b.label && a.threw == b.threw
         && a.horizon == b.horizon && ((std::isnan(a.evtime) && std::isnan(b.evtime)) || a.evtime == b.evtime);
}

static std::string pars_diff(const bxdecay0::bbpars & a, const bxdecay0::bbpars & b)
{
  std::string d;
  auto eqd = [](double x, double y) { return (std::isnan(x) && std::isnan(y)) || x == y; };
#define CMPF(f) if (!eqd(a.f, b.f)) d += #f " ";
  CMPF(Qbb) CMPF(Edlevel) CMPF(EK) CMPF(Zdbb) CMPF(Adbb) CMPF(spmax) CMPF(toallevents) CMPF(ebb1) CMPF(ebb2) CMPF(e0)
#undef CMPF
  if (a.modebb != b.modebb) d += "modebb ";
  if (a.levelE != b.levelE) d += "levelE ";
  if (a.itrans02 != b.itrans02) d += "itrans02 ";
  if (a.istartbb != b.istartbb) d += "istartbb ";
  for (unsigned k = 0; k < bxdecay0::bbpars::SPSIZE; k++)
    if (!eqd(a.spthe1[k], b.spthe1[k])) {
      d += "spthe1[" + std::to_string(k) + "] ";
      break;
    }
  return d;
}

static const int CAPS[5] = {1, 2, 3, 4, 8};
static const char * OPNAMES[] = {"shoot->fresh", "shoot->reused", "shoot->prefilled(1)", "shoot->prefilled(2)", "shoot->prefilled(3)", "shoot->prefilled(4)", "shoot->prefilled(8)",
                                 "reset+reinitialise", "other instance: build,init,2 shots,destroy", "other instance kept alive + 1 shot", "destroy A, rebuild, initialise"};
static const int NOPS = 11;

struct Ctx {
  Config cfg, other;
  std::unique_ptr<decay0_generator> A;
  std::vector<std::unique_ptr<decay0_generator>> keep;
  bxdecay0::event E; // the reused event object
  void build()
  {
    A.reset(new decay0_generator);
    configure(*A, cfg);
    init(*A);
  }
  void apply(int op, int pos)
  {
    uint64_t ph = 9000 + pos;
    switch (op) {
    case 0: { bxdecay0::event ev; shoot_into(*A, ev, ph); break; }
    case 1: shoot_into(*A, E, ph); break;
    case 2: case 3: case 4: case 5: case 6: { bxdecay0::event ev = prefilled(CAPS[op - 2], pos % 4); shoot_into(*A, ev, ph); break; }
    case 7: A->reset(); configure(*A, cfg); init(*A); break;
    case 8: {
      decay0_generator B;
      configure(B, other);
      init(B);
      bxdecay0::event ev;
      shoot_into(B, ev, ph);
      shoot_into(B, E, ph + 1); // the other instance also recycles the shared event object
      break;
    }
    case 9: {
      keep.emplace_back(new decay0_generator);
      configure(*keep.back(), other);
      init(*keep.back());
      shoot_into(*keep.back(), E, ph); // into the shared, recycled event object
      break;
    }
    case 10: A.reset(); build(); break;
    }
  }
};

static const uint64_t PROBES[3] = {101, 202, 303};

// The canonical event of a probe is produced in a pristine process (forked child: fresh generator -> initialise ->
// one shot), so that process-global state left by other shots cannot leak into the reference itself.
static bool canonical_in_child(const Config & c, uint64_t phase, const Forced * forced, Ev & out, bxdecay0::bbpars * pars_out = nullptr)
{
  int pfd[2];
  if (pipe(pfd)) return false;
  pid_t p = fork();
  if (p == 0) {
    close(pfd[0]);
    alarm(300);
    Ev e;
    bxdecay0::bbpars pars;
    int ok = 1;
    try {
      decay0_generator g;
      configure(g, c);
      init(g);
      pars = g.get_bb_params();
      bxdecay0::event ev;
      e = shoot_into(g, ev, phase, forced);
    } catch (std::exception &) {
      ok = 0;
    }
    std::string buf;
    auto put = [&](const void * d, size_t n) { buf.append((const char *)d, n); };
    size_t n = e.code.size();
    int flags = ok | (e.threw ? 2 : 0) | (e.horizon ? 4 : 0);
    put(&flags, sizeof flags);
    put(&n, sizeof n);
    put(&e.ndraws, sizeof e.ndraws);
    put(&e.evtime, sizeof e.evtime);
    for (size_t k = 0; k < n; k++) {
      put(&e.code[k], sizeof(int));
      put(&e.t[k], 8); put(&e.px[k], 8); put(&e.py[k], 8); put(&e.pz[k], 8);
    }
    size_t ls = e.label.size();
    put(&ls, sizeof ls);
    put(e.label.data(), ls);
    if (pars_out) {
      // plain fields and the table only (the struct holds a stream and strings)
      double f[10] = {pars.Qbb, pars.Edlevel, pars.EK, pars.Zdbb, pars.Adbb, pars.spmax, pars.toallevents, pars.ebb1, pars.ebb2, pars.e0};
      int g4[4] = {pars.modebb, pars.levelE, pars.itrans02, pars.istartbb};
      put(f, sizeof f);
      put(g4, sizeof g4);
      put(pars.spthe1, sizeof pars.spthe1);
    }
    size_t off = 0;
    while (off < buf.size()) {
      ssize_t w = write(pfd[1], buf.data() + off, buf.size() - off);
      if (w <= 0) break;
      off += w;
    }
    _exit(0);
  }
  close(pfd[1]);
  std::string buf;
  char b[65536];
  ssize_t r;
  while ((r = read(pfd[0], b, sizeof b)) > 0) buf.append(b, r);
  close(pfd[0]);
  int st;
  waitpid(p, &st, 0);
  if (!WIFEXITED(st) || WEXITSTATUS(st) != 0 || buf.size() < sizeof(int) + 2 * sizeof(size_t)) return false;
  size_t off = 0;
  auto get = [&](void * d, size_t n) { memcpy(d, buf.data() + off, n); off += n; };
  int flags;
  size_t n;
  get(&flags, sizeof flags);
  get(&n, sizeof n);
  Ev e;
  get(&e.ndraws, sizeof e.ndraws);
  get(&e.evtime, sizeof e.evtime);
  e.code.resize(n); e.t.resize(n); e.px.resize(n); e.py.resize(n); e.pz.resize(n);
  for (size_t k = 0; k < n; k++) {
    get(&e.code[k], sizeof(int));
    get(&e.t[k], 8); get(&e.px[k], 8); get(&e.py[k], 8); get(&e.pz[k], 8);
  }
  size_t ls;
  get(&ls, sizeof ls);
  e.label.assign(buf.data() + off, ls);
  off += ls;
  e.threw = flags & 2;
  e.horizon = flags & 4;
  if (pars_out) {
    double f[10];
    int g4[4];
    get(f, sizeof f);
    get(g4, sizeof g4);
    pars_out->Qbb = f[0]; pars_out->Edlevel = f[1]; pars_out->EK = f[2]; pars_out->Zdbb = f[3]; pars_out->Adbb = f[4]; pars_out->spmax = f[5];
    pars_out->toallevents = f[6]; pars_out->ebb1 = f[7]; pars_out->ebb2 = f[8]; pars_out->e0 = f[9];
    pars_out->modebb = g4[0]; pars_out->levelE = g4[1]; pars_out->itrans02 = g4[2]; pars_out->istartbb = g4[3];
    get(pars_out->spthe1, sizeof pars_out->spthe1);
  }
  out = e;
  return flags & 1;
}

static std::string run_config(const Config & c_in, int depth, long nlong)
{
  Config c = c_in;
  if (c.dbd() && c.mode == 0) {
    // "any mode": the first of the two-electron, double-capture, capture-positron and two-positron modes that this
    // nuclide accepts (the 2beta+/EC nuclides refuse the 2beta- modes and vice versa)
    for (int m : {1, 11, 9, 12, 10, 3}) {
      Config t = c;
      t.mode = m;
      Ev e;
      if (canonical_in_child(t, PROBES[0], nullptr, e)) { c = t; break; }
    }
  }
  long histories = 0, probes = 0;
  std::vector<std::pair<std::string, std::string>> viol;
  std::string sample;
  auto V = [&](const std::string & cls, const std::string & hist, const std::string & text) {
    for (auto & v : viol)
      if (v.first.find(cls) != std::string::npos && viol.size() > 12) return;
    if (viol.size() < 30) viol.push_back({c.key() + ":" + cls, "history [" + hist + "]: " + text});
  };
  Config other;
  other.cat = "bkg";
  other.name = (c.name == "Co60") ? "Bi207+Pb207m" : "Co60";
  // canonical
  Ev canon[3];
  bxdecay0::bbpars canon_pars;
  int canon_np_max = 0;
  for (int q = 0; q < 3; q++) {
    if (!canonical_in_child(c, PROBES[q], nullptr, canon[q], q == 0 ? &canon_pars : nullptr))
      return "{\"key\":" + vx::jstr(c.key()) + ",\"error\":\"configuration does not initialise in a pristine process\"}";
    canon_np_max = std::max(canon_np_max, (int)canon[q].code.size());
    if (canon[q].threw || canon[q].horizon) return "{\"key\":" + vx::jstr(c.key()) + ",\"error\":\"canonical probe failed\"}";
  }
  // steered probes: stream 0 with each single deviate position forced into a tail or the middle, so that rare
  // branches (and the code that only they reach) are probed after every history as well
  std::vector<Forced> steer;
  std::vector<Ev> steer_canon;
  {
    size_t nd = std::min<size_t>(canon[0].ndraws, 40);
    for (size_t i = 0; i < nd; i++)
      for (double v : {1e-12, 0.5, 1 - 1e-12}) {
        Forced f;
        f[i] = v;
        Ev e;
        if (!canonical_in_child(c, PROBES[0], &f, e)) continue;
        if (e.threw || e.horizon) continue;
        steer.push_back(f);
        steer_canon.push_back(e);
      }
    // pairs: a sampler's candidate in a tail AND its acceptance deviate at 0 (the candidate is then always accepted): the
    // clamps and floors behind rejection loops (a lepton below 50 eV, a candidate at the end-point) are reached after every
    // history too - a single forced position leaves the acceptance to the default stream
    for (size_t i = 0; i + 1 < std::min<size_t>(nd, 13); i++)
      for (double v : {1e-12, 1 - 1e-12}) {
        Forced f;
        f[i] = v;
        f[i + 1] = 1e-12;
        Ev e;
        if (!canonical_in_child(c, PROBES[0], &f, e)) continue;
        if (e.threw || e.horizon) continue;
        steer.push_back(f);
        steer_canon.push_back(e);
      }
  }
  auto probe_all = [&](Ctx & X, const std::string & hist) {
    for (size_t k = 0; k < steer.size(); k++) {
      bxdecay0::event ev;
      Ev e = shoot_into(*X.A, ev, PROBES[0], &steer[k]);
      probes++;
      if (!same_ev(e, steer_canon[k]))
        V("probe-steered", hist, "probe shot with deviate " + vx::forced_to_json(steer[k]) + " forced (stream " + std::to_string(PROBES[0]) + ") differs from the canonical history's");
    }
    // probes into fresh events, for each recorded stream
    for (int q = 0; q < 3; q++) {
      bxdecay0::event ev;
      Ev e = shoot_into(*X.A, ev, PROBES[q]);
      probes++;
      if (!same_ev(e, canon[q])) V("probe-fresh", hist, "probe shot (stream " + std::to_string(PROBES[q]) + ") into a fresh event differs from the canonical history's");
    }
    // probe 0 into the reused and the pre-filled events
    {
      Ev e = shoot_into(*X.A, X.E, PROBES[0]);
      probes++;
      if (!same_ev(e, canon[0])) V("probe-reused", hist, "probe shot into the reused event object differs from the canonical history's");
    }
    for (int k = 0; k < 5; k++)
      for (int fl = 0; fl < 4; fl++) {
        bxdecay0::event ev = prefilled(CAPS[k], fl);
        Ev e = shoot_into(*X.A, ev, PROBES[0]);
        probes++;
        if (!same_ev(e, canon[0]))
          V("probe-prefilled", hist, "probe shot into a pre-filled event of capacity " + std::to_string(CAPS[k]) + (fl & 1 ? " with" : " without") + " a stale label," + (fl & 2 ? " with" : " without")
                                         + " a stale event time, differs from the canonical history's");
      }
  };
  // predecessor-first histories: state that is set once per process (function-local statics, lazily built tables)
  // is frozen by whichever configuration runs first, and in every history below that is this configuration itself
  // (this process is still pristine here: the canonical events were produced in children).
  // In a forked child a sibling configuration (same category and mode, other nuclide) is initialised and shot FIRST,
  // then this configuration is built and probed against the canonical events.
  long sib_runs = 0;
  {
    static const char * DBDSIB[] = {"Nd150", "Zr96", "Xe136", "Mo100", "Cd106", "Ca48", "Se82", "Ge76", "Te130", "Kr78", "Xe124", "Ru96", "Cd116", "Sn124"};
    static const char * BKGSIB[] = {"Bi214", "Pb212", "Tl208", "K42", "Sr90", "Co60", "Bi207", "Eu152", "Cs137", "Na22"};
    std::vector<Config> sibs;
    if (c.dbd()) {
      for (const char * n : DBDSIB)
        if (c.name != n) {
          Config sc = c;
          sc.name = n;
          sc.level = 0;
          sc.pre.clear();
          sibs.push_back(sc);
        }
    } else {
      for (const char * n : BKGSIB)
        if (c.name.compare(0, strlen(n), n) != 0) {
          Config sc;
          sc.cat = "bkg";
          sc.name = n;
          sibs.push_back(sc);
        }
    }
    int used = 0;
    for (size_t si = 0; si < sibs.size() && used < 2; si++) {
      int pfd[2];
      if (pipe(pfd)) break;
      pid_t p = fork();
      if (p == 0) {
        close(pfd[0]);
        alarm(600);
        std::string rep;
        std::unique_ptr<decay0_generator> S(new decay0_generator);
        bool ok = true;
        try {
          configure(*S, sibs[si]);
          init(*S);
          bxdecay0::event ev;
          shoot_into(*S, ev, 7001);
          shoot_into(*S, ev, 7002);
        } catch (std::exception &) {
          ok = false;
        }
        if (!ok) {
          rep = "SKIP";
        } else {
          if (used == 1) S.reset(); // second sibling: destroyed before this configuration is built; first: kept alive
          viol.clear();
          probes = 0;
          std::string hs = "(fresh process) other configuration " + sibs[si].key() + " initialised and shot twice first" + (used == 1 ? ", destroyed" : ", kept alive") + " ; build ; initialise";
          try {
            Ctx X;
            X.cfg = c;
            X.other = other;
            X.build();
            std::string d = pars_diff(X.A->get_bb_params(), canon_pars);
            if (!d.empty()) V("bbpars-after-other", hs, "working parameters differ from those of a pristine process: " + d);
            probe_all(X, hs);
          } catch (std::exception & e) {
            V("exception", hs, std::string("unexpected exception: ") + e.what());
          }
          rep = "OK " + std::to_string(probes) + "\n";
          for (auto & v : viol) rep += v.first + "\t" + v.second + "\n";
        }
        size_t off = 0;
        while (off < rep.size()) {
          ssize_t w = write(pfd[1], rep.data() + off, rep.size() - off);
          if (w <= 0) break;
          off += w;
        }
        _exit(0);
      }
      close(pfd[1]);
      std::string buf;
      char b[65536];
      ssize_t r;
      while ((r = read(pfd[0], b, sizeof b)) > 0) buf.append(b, r);
      close(pfd[0]);
      int st;
      waitpid(p, &st, 0);
      if (!WIFEXITED(st) || WEXITSTATUS(st) != 0) {
        V("crash-after-other", sibs[si].key(), "the process died when this configuration ran after " + sibs[si].key());
        used++;
        continue;
      }
      if (buf.compare(0, 4, "SKIP") == 0) continue; // the sibling does not exist for this mode
      used++;
      sib_runs++;
      std::istringstream is(buf);
      std::string line;
      std::getline(is, line);
      probes += atol(line.c_str() + 3);
      histories++;
      while (std::getline(is, line)) {
        size_t t = line.find('\t');
        if (t != std::string::npos && viol.size() < 30) viol.push_back({line.substr(0, t), line.substr(t + 1)});
      }
    }
  }
  // all histories up to depth
  std::vector<int> h;
  std::function<void()> rec = [&]() {
    // run this history
    Ctx X;
    X.cfg = c;
    X.other = other;
    std::string hs;
    try {
      X.build();
      for (size_t k = 0; k < h.size(); k++) {
        X.apply(h[k], (int)k);
        hs += (k ? " ; " : "") + std::string(OPNAMES[h[k]]);
      }
      histories++;
      for (size_t k = 0; k < h.size(); k++)
        if (h[k] == 7 || h[k] == 10) {
          std::string d = pars_diff(X.A->get_bb_params(), canon_pars);
          if (!d.empty()) V("bbpars", hs, "working parameters after re-initialisation differ from the first initialisation: " + d);
          break;
        }
      probe_all(X, hs);
      if (sample.empty() && h.size() == (size_t)depth) sample = hs;
    } catch (std::exception & e) {
      V("exception", hs, std::string("unexpected exception: ") + e.what());
    }
    if ((int)h.size() >= depth) return;
    for (int op = 0; op < NOPS; op++) {
      h.push_back(op);
      rec();
      h.pop_back();
    }
  };
  rec();
  // the long history
  long nl = 0;
  if (nlong > 0) {
    try {
      Ctx X;
      X.cfg = c;
      X.other = other;
      X.build();
      bxdecay0::event ev;
      for (long k = 0; k < nlong; k++) {
        shoot_into(*X.A, (k % 3 == 0) ? X.E : ev, 50000 + k);
        nl++;
      }
      probe_all(X, "initialise ; " + std::to_string(nlong) + " shots (default streams)");
      if ((long)X.A->get_event_count() != nlong + 24 + (long)steer.size()) V("count", "long", "event counter after the long history is " + std::to_string(X.A->get_event_count()));
    } catch (std::exception & e) {
      V("exception", "long history", std::string("unexpected exception: ") + e.what());
    }
  }
  std::ostringstream js;
  js << "{\"key\":" << vx::jstr(c.key()) << ",\"histories\":" << histories << ",\"probes\":" << probes << ",\"long_shots\":" << nl << ",\"predecessor_first\":" << sib_runs << ",\"canon_particles\":" << canon_np_max
     << ",\"sample\":" << vx::jstr(sample) << ",\"violations\":[";
  for (size_t k = 0; k < viol.size(); k++) js << (k ? "," : "") << "{\"key\":" << vx::jstr(viol[k].first) << ",\"text\":" << vx::jstr(viol[k].second) << "}";
  js << "]}";
  return js.str();
}

int main(int argc, char ** argv)
{
  std::string cfgfile, out;
  int jobs = 16, depth = 3;
  long nlong = 10000;
  for (int i = 1; i < argc; i++) {
    std::string a = argv[i];
    auto nxt = [&]() { return std::string(i + 1 < argc ? argv[++i] : ""); };
    if (a == "--cfgfile") cfgfile = nxt();
    else if (a == "--out") out = nxt();
    else if (a == "--jobs") jobs = atoi(nxt().c_str());
    else if (a == "--depth") depth = atoi(nxt().c_str());
    else if (a == "--long") nlong = atol(nxt().c_str());
  }
  setenv("BXDECAY0_RESOURCE_DIR", "/repo/resources", 0);
  if (!getenv("DX_VERBOSE")) {
    FILE * f = freopen("/dev/null", "w", stderr);
    (void)f;
  }
  std::vector<Config> cfgs;
  std::vector<int> depths;
  {
    std::ifstream in(cfgfile);
    std::string l;
    while (std::getline(in, l)) {
      // "<depth> cat name level mode e1 e2"
      std::istringstream is(l);
      int d;
      Config c;
      if (!(is >> d >> c.cat >> c.name)) continue;
      c.level = 0; c.mode = 0; c.e1 = c.e2 = -1;
      is >> c.level >> c.mode >> c.e1 >> c.e2;
      is.clear();
      std::string tag;
      if (is >> tag) c.pre = tag;
      cfgs.push_back(c);
      depths.push_back(d > 0 ? d : depth);
    }
  }
  FILE * fo = fopen(out.c_str(), "w");
  if (!fo) return 2;
  vx::run_pool(cfgs.size(), jobs, 3000, [&](size_t i) { return run_config(cfgs[i], depths[i], nlong); },
               [&](size_t, const std::string & r) { fprintf(fo, "%s\n", r.c_str()); fflush(fo); },
               [&](size_t i, const std::string & how) { fprintf(fo, "{\"key\":%s,\"crashed\":%s}\n", vx::jstr(cfgs[i].key()).c_str(), vx::jstr(how).c_str()); fflush(fo); });
  fclose(fo);
  return 0;
}
