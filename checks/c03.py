"""C03 — every event closes its energy budget against Q and honours the window (DESIGN §2 C03)."""
import dxlib, vlib, c01, c02


def run(tier, rep):
    if tier == 'quick':
        layers, deadline = 'A,B1', 300
    else:
        layers, deadline = 'A,B2', 1500
    res, d = dxlib.run_dx('plain', c02.grid(), 'c03', layers, 'ref,inv', api='generator', deadline=deadline)
    acc = [r for r in res if 'crashed' in r or r['port_err'] == 0]
    wcfg = c02.window_cfgs(res, nested=True)
    if tier == 'quick':
        # whole nested chains of every 3rd window-capable configuration
        keep = set()
        chains = sorted(set(' '.join(w.split()[:4]) for w in wcfg))
        for i, ch in enumerate(chains):
            if i % 3 == vlib.SEED % 3:
                keep.add(ch)
        wcfg = [w for w in wcfg if ' '.join(w.split()[:4]) in keep]
    res2, d2 = dxlib.run_dx('plain', wcfg, 'c03w', 'A,B1' if tier == 'quick' else 'A,B1', 'ref,inv', api='generator', deadline=deadline)
    acc2 = [r for r in res2 if 'crashed' in r or r['port_err'] == 0]
    # the edge coverage again under squeezed default streams (every unforced deviate of the generation stage in a sub-interval
    # of (0,1)): energy sums and windows are then probed with all leptons / all cascade choices pushed to the same side
    squeezes = ['0.33,0.67'] if tier == 'quick' else dxlib.SQUEEZES
    acc3 = []
    for sq in squeezes:
        rs, ds = dxlib.run_dx('plain', c02.grid() + (wcfg if tier != 'quick' else [w for i, w in enumerate(wcfg) if i % 4 == 0]), 'c03s', 'A', 'ref,inv', api='generator', deadline=deadline,
                              extra=['--squeeze', sq, '--horizon', '30000'])
        for r in rs:
            r['squeeze_pass'] = sq
        acc3 += [r for r in rs if 'crashed' in r or r['port_err'] == 0]
    rep.coverage['squeezed_default_streams'] = list(squeezes)
    c01.aggregate(rep, acc + acc2 + acc3, False, ('c03',), 'generator',
                  'every accepted (isotope, level, mode) of the complete grid plus nested window chains [0,e0+] > [0.2,0.9]e0 > [0.4,0.7]e0 > [0.5,0.6]e0 and the one-sided windows [0.5e0,-], [-,0.5e0] on '
                  'every window-capable configuration, driven through decay0_generator; layers %s; on every execution: visible energy vs Q '
                  '(equal within 3 keV for neutrinoless modes, never above otherwise; primary particles only for the four alpha-chain entries), '
                  'lepton energy sum inside the window; per configuration toallevents >= 1, = 1 for the full range, monotone along the chain' % layers)
    # toallevents along nested chains
    chains = {}
    for r in acc2:
        if 'crashed' in r:
            continue
        c = r['config']
        if c['e1'] < 0 or c['e2'] < 0 or c['e2'] > 11:
            if not (r['toall_port'] >= 1 - 1e-9):
                rep.violation('dbd:%s:l%d:m%d:toallevents-onesided' % (c['name'], c['level'], c['mode']), 'toallevents=%g < 1 for the one-sided window [%g,%g]' % (r['toall_port'], c['e1'], c['e2']))
            continue
        chains.setdefault((c['name'], c['level'], c['mode']), []).append((c['e2'] - c['e1'], c['e1'], c['e2'], r['toall_port']))
    nchain = 0
    for k, lst in chains.items():
        lst.sort(reverse=True)
        # (only windows nested in the previous one belong to the chain: the narrow window [0.45,0.49]e0 does not)
        nested = []
        for w in lst:
            if not nested or (w[1] >= nested[-1][1] and w[2] <= nested[-1][2]):
                nested.append(w)
        lst = nested
        nchain += 1
        for a, b in zip(lst, lst[1:]):
            if not (b[3] >= a[3] * (1 - 1e-9)):
                rep.violation('dbd:%s:l%d:m%d:toallevents-monotone' % k, 'toallevents decreases when the window narrows: [%g,%g]->%g, [%g,%g]->%g' % (a[1], a[2], a[3], b[1], b[2], b[3]))
        full = lst[0]
        if abs(full[3] - 1) > 1e-6:
            rep.violation('dbd:%s:l%d:m%d:toallevents-full' % k, 'toallevents=%g for a window covering the full range [%g,%g]' % (full[3], full[1], full[2]))
    rep.coverage['window_chains'] = nchain
    rep.coverage['max_excess_MeV'] = max([r['max_excess'] for r in acc + acc2 if 'crashed' not in r and r['max_excess'] is not None] + [-1])
    rep.coverage['max_deficit_neutrinoless_MeV'] = max([r['max_deficit'] for r in acc + acc2 if 'crashed' not in r and r['max_deficit'] is not None] + [-1])
    rep.assumptions += ['tolerance 3 keV (tabulated-energy rounding)', 'Q-value is the one the library reports in bbpars.Qbb (cross-checked against the reference by C02)',
                        'gA modes are covered by C14 (two electrons with e1+e2 <= dataset maximum)']


def replay(path):
    return dxlib.replay(path)
