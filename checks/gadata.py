"""Synthetic gA datasets written with the repository's own encoder (resources/data/dbd_gA/tools/mkocdfdata.py,
imported, not copied). Used by C06/C09 (acceptance of the gA modes), C14 and C15."""
import importlib.util, io, os, sys, contextlib, threading
import vlib

_CWD_LOCK = threading.Lock()  # the repository's encoder writes into the current directory: chdir is process-wide


def encoder():
    p = os.path.join(vlib.REPO, 'resources/data/dbd_gA/tools/mkocdfdata.py')
    spec = importlib.util.spec_from_file_location('mkocdfdata_repo', p)
    m = importlib.util.module_from_spec(spec)
    spec.loader.exec_module(m)
    return m


def write_dataset(dirpath, pdf_rows, emin, emax, qbb, isotope='Test', mode='g0'):
    """pdf_rows[i][j], j < n-i (kinematic triangle), energies emin + k*(emax-emin)/(n-1).
    Writes tab_pdf.data and tab_ocdf.data into dirpath; returns dict with the encoder-side tables."""
    enc = encoder()
    n = len(pdf_rows)
    os.makedirs(dirpath, exist_ok=True)
    step = (emax - emin) / (n - 1)
    src = os.path.join(dirpath, 'input_pdf.txt')
    with open(src, 'w') as f:
        for i in range(n):
            for j in range(len(pdf_rows[i])):
                f.write('%.16e %.16e %.16e\n' % (emin + i * step, emin + j * step, pdf_rows[i][j]))
    with _CWD_LOCK:
        cwd = os.getcwd()
        os.chdir(dirpath)
        try:
            with contextlib.redirect_stderr(io.StringIO()):
                app = enc.mkocdfdata(src, isotope, mode, qbb, False)
                app.load_tab_pdf()
                app.fill_tab_cdf()
                app.fill_tab_ncdf()
                app.save_tab_pdf()
                app.save_tab_ncdf()
        finally:
            os.chdir(cwd)
    for fn in ('tab_pdf.data', 'tab_ocdf.data'):
        if not os.path.exists(os.path.join(dirpath, fn)):
            raise SystemExit('HARNESS-ERROR: the encoder did not write %s into %s' % (fn, dirpath))
    return {'n': n, 'emin': app.e1min, 'emax': app.e1max, 'step': app.estep, 'qbb': qbb,
            'e1_cdf': [t[0] for t in app.tab_ncdf], 'e2_cdf': [t[1] for t in app.tab_ncdf]}


def default_rows(n, salt=0):
    rows = []
    for i in range(n):
        rows.append([1.0 + 0.5 * ((i * 7 + j * 3 + salt) % 5) for j in range(n - i)])
    return rows


def install_tree(root, n=4, emin=0.1, emax=2.5, qbb=3.0):
    """a complete BXDECAY0_DBD_GA_DATA_DIR tree (4 nuclides x 4 processes + Test) of one small dataset"""
    info = None
    # every (nuclide, process) pair gets a table of its own, so that a generator reading the wrong one shows
    for a, nuc in enumerate(('Se82', 'Mo100', 'Cd116', 'Nd150', 'Test')):
        for b, proc in enumerate(('g0', 'g2', 'g22', 'g4')):
            info = write_dataset(os.path.join(root, 'data/dbd_gA/v1.0', nuc, proc), default_rows(n, salt=a + 2 * b + a * b), emin, emax + 0.05 * b, qbb + 0.1 * a, nuc, proc)
    return info


if __name__ == '__main__':
    print(install_tree(sys.argv[1]))
