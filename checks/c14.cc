// c14 — the gA sampler stays in the kinematic domain and inverts its cumulative tables (DESIGN §2 C14).
// Input: a list of synthetic datasets written with the repository's own encoder (checks/gadata.py), each with an
// expectation file holding the encoder-side tables. For every dataset: decoded tables vs encoder tables, then the
// sampler on a grid of all table boundaries +-{1e-9,1e-3}, mid points and tails, both shooting methods, and the
// event export.
//
//   c14 --list FILE --out FILE
#include <bxdecay0/dbd_gA.h>
#include <bxdecay0/event.h>
#include <bxdecay0/i_random.h>
#include "pool.hpp"
#include <fcntl.h>
#include <csignal>
#include "sanhook.hpp"
#include "stream.hpp"
#include <algorithm>
#include <functional>
#include <sys/wait.h>
#include <unistd.h>
#include <cmath>
#include <cstdarg>
#include <cstdio>
#include <cstdlib>
#include <fstream>
#include <map>
#include <sstream>
#include <string>
#include <vector>

struct Seq : bxdecay0::i_random {
  std::vector<double> v;
  size_t i = 0;
  uint64_t phase = 7;
  size_t horizon = 100000;
  double operator()() override
  {
    if (i >= horizon) throw std::runtime_error("HORIZON");
    double r = i < v.size() ? v[i] : vx::stream_value(phase, i);
    i++;
    return r;
  }
};

struct Expect {
  int n = 0;
  double emin = 0, emax = 0, step = 0, qbb = 0;
  std::vector<double> e1;
  std::vector<std::vector<double>> e2;
  bool pdf_only = false;
};

static bool read_expect(const std::string & fn, Expect & x)
{
  std::ifstream in(fn);
  if (!in) return false;
  in >> x.n >> x.emin >> x.emax >> x.step >> x.qbb;
  if (x.n < 0) { // p.d.f.-only dataset (the documented encoder cannot write its c.d.f.): rejection method only
    x.n = -x.n;
    x.pdf_only = true;
    return (bool)in;
  }
  x.e1.resize(x.n);
  for (auto & v : x.e1) in >> v;
  x.e2.resize(x.n);
  for (int i = 0; i < x.n; i++) {
    x.e2[i].resize(x.n - i);
    for (auto & v : x.e2[i]) in >> v;
  }
  return (bool)in;
}

static int nines(double p)
{
  int k = 0;
  double t = 0.9;
  while (k < 15 && p >= t) {
    k++;
    t = 1.0 - std::pow(10.0, -(k + 1));
  }
  return k;
}

static long g_eval = 0, g_nontrivial = 0, g_datasets = 0, g_lines = 0;
static std::map<std::string, std::string> g_viol;
static std::vector<std::string> g_samples;
static void V(const std::string & k, const std::string & t)
{
  if (!g_viol.count(k) && g_viol.size() < 200) g_viol[k] = t;
}
static std::string fmt(const char * f, ...)
{
  char b[700];
  va_list ap;
  va_start(ap, f);
  vsnprintf(b, sizeof b, f, ap);
  va_end(ap);
  return b;
}

static void check_table(const std::string & ds, const char * what, const std::vector<double> & got, const std::vector<double> & exp)
{
  g_lines++;
  if (got.size() != exp.size()) {
    V(ds + ":decode:size", fmt("%s: %s has %zu entries, the encoder wrote %zu", ds.c_str(), what, got.size(), exp.size()));
    return;
  }
  double prev = 0;
  for (size_t k = 0; k < got.size(); k++) {
    double tol = 6e-7 * 10 * std::pow(10.0, -(nines(exp[k]) + 1));
    if (!(std::fabs(got[k] - exp[k]) <= tol)) V(ds + ":decode:value", fmt("%s: %s[%zu] decodes to %.17g, the encoder encoded %.17g (tolerance %.3g)", ds.c_str(), what, k, got[k], exp[k], tol));
    if (!(got[k] >= prev)) V(ds + ":decode:monotone", fmt("%s: %s decreases at %zu (%.17g after %.17g)", ds.c_str(), what, k, got[k], prev));
    if (!(got[k] >= 0 && got[k] <= 1)) V(ds + ":decode:range", fmt("%s: %s[%zu]=%.17g outside [0,1]", ds.c_str(), what, k, got[k]));
    prev = got[k];
  }
  if (!got.empty() && got.back() != 1.0) V(ds + ":decode:end", fmt("%s: %s ends at %.17g, not 1", ds.c_str(), what, got.back()));
}

static std::vector<double> grid_for(const std::vector<double> & cdf)
{
  std::vector<double> g = {1e-12, 1e-6, 0.5, 1 - 1e-9, 1 - 1e-12};
  double prev = 0;
  for (double c : cdf) {
    for (double d : {1e-9, 1e-3}) {
      if (c - d > 0) g.push_back(c - d);
      if (c + d < 1) g.push_back(c + d);
    }
    if (c > 0 && c < 1) g.push_back(c); // exactly on a boundary
    g.push_back(0.5 * (prev + c));
    prev = c;
  }
  std::sort(g.begin(), g.end());
  g.erase(std::unique(g.begin(), g.end()), g.end());
  std::vector<double> out;
  for (double u : g)
    if (u > 0 && u < 1) out.push_back(u);
  return out;
}

static double kinE(const bxdecay0::particle & p)
{
  double m = 0.51099906;
  double p2 = p.get_px() * p.get_px() + p.get_py() * p.get_py() + p.get_pz() * p.get_pz();
  return std::sqrt(p2 + m * m) - m;
}

// ---- history independence of the samplers: the pairs a dataset yields for fixed deviate streams, computed in a pristine
// child process (forked before this process sampled anything) and again later, after other datasets went through the same
// code in this process, must be bit-identical (state frozen by the first user of a routine would show)
static std::map<std::string, std::string> g_pristine;
static std::string sampler_digest(const std::string & root, const std::string & ds)
{
  std::string out;
  setenv("BXDECAY0_DBD_GA_DATA_DIR", (root + "/" + ds).c_str(), 1);
  for (int m = 0; m < 2; m++) {
    try {
      bxdecay0::dbd_gA g;
      g.set_nuclide("Test");
      g.set_process(bxdecay0::dbd_gA::PROCESS_G0);
      g.set_shooting(m ? bxdecay0::dbd_gA::SHOOTING_REJECTION : bxdecay0::dbd_gA::SHOOTING_INVERSE_TRANSFORM_METHOD);
      g.initialize();
      for (uint64_t ph = 1; ph <= 16; ph++) {
        Seq r;
        r.phase = 1000 + ph;
        r.horizon = 300000;
        double e1 = -1, e2 = -1;
        try { g.shoot_e1_e2(r, e1, e2); } catch (std::exception &) { e1 = e2 = -7; }
        char b[96];
        snprintf(b, sizeof b, "%.17g %.17g %zu;", e1, e2, r.i);
        out += b;
      }
    } catch (std::exception &) {
      out += "init-refused;";
    }
  }
  return out;
}
static void pristine_digest(const std::string & root, const std::string & ds)
{
  int pfd[2];
  if (pipe(pfd)) return;
  fflush(nullptr);
  pid_t p = fork();
  if (p == 0) {
    close(pfd[0]);
    alarm(120);
    std::string d = sampler_digest(root, ds);
    size_t off = 0;
    while (off < d.size()) {
      ssize_t w = write(pfd[1], d.data() + off, d.size() - off);
      if (w <= 0) break;
      off += w;
    }
    _exit(0);
  }
  close(pfd[1]);
  std::string buf;
  char b[4096];
  ssize_t r;
  while ((r = read(pfd[0], b, sizeof b)) > 0) buf.append(b, r);
  close(pfd[0]);
  int st;
  waitpid(p, &st, 0);
  if (WIFEXITED(st) && WEXITSTATUS(st) == 0) g_pristine[ds] = buf;
}

static void check_dataset(const std::string & root, const std::string & ds)
{
  Expect x;
  std::string base = root + "/" + ds + "/data/dbd_gA/v1.0/Test/g0";
  if (!read_expect(base + "/expect.txt", x)) {
    V(ds + ":harness", "cannot read expectation file");
    return;
  }
  g_datasets++;
  // ---- decoded tables, line by line, through the public decoder
  std::vector<double> e1cdf;
  std::vector<std::vector<double>> e2cdf;
  if (!x.pdf_only) {
    std::ifstream in(base + "/tab_ocdf.data");
    std::string l;
    int row = -3; // esum, header, then e1 cdf, then rows
    while (std::getline(in, l)) {
      if (l.empty() || l[0] == '#') continue;
      row++;
      if (row < 0) continue;
      // the decoder REPLACES the content of its output vector: one vector is handed to it for every line of the file, as a
      // caller looping over the lines would do (it still holds the previous row)
      static std::vector<double> t;
      try {
        bxdecay0::load_optimized_cdf_array(l, t);
      } catch (std::exception & e) {
        V(ds + ":decode:exception", ds + ": load_optimized_cdf_array throws on an encoder line: " + e.what() + " line=<" + l + ">");
        return;
      }
      if (row == 0) {
        check_table(ds, "E1 c.d.f.", t, x.e1);
        e1cdf = t;
      } else if (row - 1 < x.n) {
        check_table(ds, ("E2 c.d.f. row " + std::to_string(row - 1)).c_str(), t, x.e2[row - 1]);
        e2cdf.push_back(t);
      }
    }
    if ((int)e2cdf.size() != x.n) {
      V(ds + ":decode:rows", ds + ": number of E2 rows decoded differs from the encoder's");
      return;
    }
  }
  setenv("BXDECAY0_DBD_GA_DATA_DIR", (root + "/" + ds).c_str(), 1);
  auto energy = [&](int k) { return x.emin + k * x.step; };
  // ---- inverse transform method
  if (!x.pdf_only) try {
    bxdecay0::dbd_gA g;
    g.set_nuclide("Test");
    g.set_process(bxdecay0::dbd_gA::PROCESS_G0);
    g.set_shooting(bxdecay0::dbd_gA::SHOOTING_INVERSE_TRANSFORM_METHOD);
    g.initialize();
    std::vector<double> g1 = grid_for(e1cdf);
    for (size_t a = 0; a < g1.size(); a++) {
      double u1 = g1[a];
      int ie1 = -1;
      for (int k = 0; k < x.n; k++)
        if (u1 <= e1cdf[k]) { ie1 = k; break; }
      if (ie1 < 0) continue;
      std::vector<double> g2 = grid_for(e2cdf[ie1]);
      double prev_e2 = -1;
      for (double u2 : g2) {
        Seq r;
        r.v = {u1, u2};
        double e1 = -1, e2 = -1;
        g_eval++;
        std::string ctx = fmt("%s inverse-transform deviates (%.17g, %.17g)", ds.c_str(), u1, u2);
        try {
          g.shoot_e1_e2(r, e1, e2);
        } catch (std::exception & e) {
          V(ds + ":itm:exception", ctx + ": " + e.what());
          continue;
        }
        if (r.i != 2) V(ds + ":itm:draws", ctx + fmt(": %zu deviates consumed", r.i));
        if (!(e1 >= 0 && e2 >= 0) || !std::isfinite(e1) || !std::isfinite(e2)) V(ds + ":itm:negative", ctx + fmt(": energies (%.17g, %.17g)", e1, e2));
        if (!(e1 + e2 <= x.qbb + 1e-12)) V(ds + ":itm:sum", ctx + fmt(": e1+e2=%.17g above the dataset maximum %.17g", e1 + e2, x.qbb));
        int je2 = -1;
        for (int k = 0; k < (int)e2cdf[ie1].size(); k++)
          if (u2 <= e2cdf[ie1][k]) { je2 = k; break; }
        double lo1 = ie1 ? energy(ie1 - 1) : 0.0, hi1 = energy(ie1);
        if (!(e1 >= lo1 - 1e-12 && e1 <= hi1 + 1e-12)) V(ds + ":itm:cell1", ctx + fmt(": e1=%.17g outside the selected cell [%.17g, %.17g] (index %d)", e1, lo1, hi1, ie1));
        if (je2 >= 0) {
          double lo2 = je2 ? energy(je2 - 1) : 0.0, hi2 = energy(je2);
          if (!(e2 >= lo2 - 1e-12 && e2 <= hi2 + 1e-12)) V(ds + ":itm:cell2", ctx + fmt(": e2=%.17g outside the selected cell [%.17g, %.17g] (index %d)", e2, lo2, hi2, je2));
          g_nontrivial++;
        }
        if (prev_e2 > e2 + 1e-12) V(ds + ":itm:monotone2", ctx + fmt(": e2 decreases with the second deviate (%.17g after %.17g)", e2, prev_e2));
        prev_e2 = e2;
      }
    }
    // e1 monotone in u1 (second deviate fixed)
    double prev_e1 = -1;
    for (double u1 : g1) {
      Seq r;
      r.v = {u1, 0.37};
      double e1, e2;
      try {
        g.shoot_e1_e2(r, e1, e2);
      } catch (std::exception &) {
        continue;
      }
      g_eval++;
      if (prev_e1 > e1 + 1e-12) V(ds + ":itm:monotone1", fmt("%s: e1 decreases with the first deviate at %.17g (%.17g after %.17g)", ds.c_str(), u1, e1, prev_e1));
      prev_e1 = e1;
    }
    // full shot: two electrons with exactly those kinetic energies and the sampled opening angle
    // (12 default streams, then the two energy deviates scripted over tails and interior values: the smallest and largest
    //  energies the tables can yield, down to fractions of an eV)
    const double SU[] = {1e-12, 1e-9, 1e-6, 1e-3, 0.5, 1 - 1e-6, 1 - 1e-12};
    for (uint64_t ph = 1; ph <= 12 + 49; ph++) {
      Seq r1, r2;
      r1.phase = r2.phase = ph;
      if (ph > 12) {
        r1.v = {SU[(ph - 13) / 7], SU[(ph - 13) % 7]};
        r2.v = r1.v;
      }
      double e1, e2, c12;
      g.shoot_e1_e2(r1, e1, e2);
      g.shoot_cos_theta(r1, e1, e2, c12);
      bxdecay0::event ev;
      g.shoot(r2, ev);
      g_eval++;
      g_nontrivial++;
      std::string ctx = fmt("%s shoot() stream %llu", ds.c_str(), (unsigned long long)ph);
      if (ev.get_particles().size() != 2 || !ev.get_particles()[0].is_electron() || !ev.get_particles()[1].is_electron()) {
        V(ds + ":event:species", ctx + ": the event is not two electrons");
        continue;
      }
      double k1 = kinE(ev.get_particles()[0]), k2 = kinE(ev.get_particles()[1]);
      if (std::fabs(k1 - e1) > 1e-12 * (1 + e1) || std::fabs(k2 - e2) > 1e-12 * (1 + e2)) V(ds + ":event:energies", ctx + fmt(": kinetic energies (%.17g,%.17g), sampled (%.17g,%.17g)", k1, k2, e1, e2));
      const auto &p = ev.get_particles()[0], &q = ev.get_particles()[1];
      double c = (p.get_px() * q.get_px() + p.get_py() * q.get_py() + p.get_pz() * q.get_pz()) / (p.get_p() * q.get_p());
      if (p.get_p() > 0 && q.get_p() > 0 && std::fabs(c - c12) > 1e-10) V(ds + ":event:angle", ctx + fmt(": opening-angle cosine %.17g, sampled %.17g", c, c12));
      if (ev.get_time() != 0.0 || p.get_time() != 0.0 || q.get_time() != 0.0) V(ds + ":event:time", ctx + ": non-zero times");
      if (r2.i != r1.i + 3) V(ds + ":event:draws", ctx + fmt(": shoot consumed %zu deviates, parts consumed %zu + 3", r2.i, r1.i));
    }
  } catch (std::exception & e) {
    V(ds + ":itm:init", ds + ": inverse-transform generator does not initialise on an encoder-written dataset: " + e.what());
  }
  // ---- rejection method
  try {
    bxdecay0::dbd_gA g;
    g.set_nuclide("Test");
    g.set_process(bxdecay0::dbd_gA::PROCESS_G0);
    g.set_shooting(bxdecay0::dbd_gA::SHOOTING_REJECTION);
    g.initialize();
    const double us[] = {1e-12, 0.03, 0.25, 0.4, 0.49, 0.5, 0.51, 0.6, 0.75, 0.97, 1 - 1e-12};
    for (double a : us)
      for (double b : us)
        for (double c : {1e-12, 1e-3, 0.5, 1 - 1e-12}) {
          Seq r;
          r.v = {a, b, c};
          r.horizon = 300000;
          double e1 = -1, e2 = -1;
          g_eval++;
          std::string ctx = fmt("%s rejection deviates (%.17g, %.17g, %.17g)", ds.c_str(), a, b, c);
          try {
            g.shoot_e1_e2(r, e1, e2);
          } catch (std::exception & e) {
            V(ds + ":rej:exception", ctx + ": " + e.what());
            continue;
          }
          g_nontrivial++;
          if (!(e1 >= 0 && e2 >= 0)) V(ds + ":rej:negative", ctx + fmt(": energies (%.17g, %.17g)", e1, e2));
          if (!(e1 + e2 <= x.qbb + 1e-12)) V(ds + ":rej:sum", ctx + fmt(": e1+e2=%.17g above the dataset maximum %.17g", e1 + e2, x.qbb));
          if (!(e1 >= x.emin - 1e-12 && e1 <= x.emax + 1e-12 && e2 >= x.emin - 1e-12 && e2 <= x.emax + 1e-12)) V(ds + ":rej:range", ctx + fmt(": energies (%.17g, %.17g) outside the sampled range", e1, e2));
          if (r.i % 3 != 0) V(ds + ":rej:draws", ctx + ": deviates consumed not a multiple of 3");
          else if (r.i >= 3) {
            // the pair is the proposal of the accepted (= last) trial: E_min + d x (E_max - E_min) on the grid the file
            // describes by E_min, E_max and the number of samples (pairs beyond the triangle are mirrored)
            auto val = [&](size_t k) { return k < r.v.size() ? r.v[k] : vx::stream_value(r.phase, k); };
            double d1 = val(r.i - 3), d2 = val(r.i - 2);
            if (d1 + d2 > 1.0) { d1 = 1.0 - d1; d2 = 1.0 - d2; }
            double x1 = x.emin + d1 * (x.emax - x.emin), x2 = x.emin + d2 * (x.emax - x.emin);
            if (std::fabs(e1 - x1) > 1e-12 * (1 + x1) || std::fabs(e2 - x2) > 1e-12 * (1 + x2))
              V(ds + ":rej:cell", ctx + fmt(": accepted pair (%.17g, %.17g) is not the point (%.17g, %.17g) selected by the deviates of the accepted trial on the grid [%g, %g]", e1, e2, x1, x2, x.emin, x.emax));
          }
        }
    // scripted rejection runs: K rejected trials followed by an accepted one must give exactly the pair of the accepted trial
    // alone, whatever K (a bounded retry that falls through with its last rejected proposal is seen at its bound)
    {
      std::vector<std::vector<double>> acc, rej;
      for (double a : {0.03, 0.25, 0.4, 0.6, 0.97})
        for (double b : {0.03, 0.25, 0.4, 0.6, 0.97})
          for (double c : {1e-12, 1 - 1e-12}) {
            Seq r;
            r.v = {a, b, c};
            r.horizon = 300000;
            double e1, e2;
            try { g.shoot_e1_e2(r, e1, e2); } catch (std::exception &) { continue; }
            (r.i == 3 ? acc : rej).push_back({a, b, c});
          }
      if (!acc.empty() && !rej.empty()) {
        const long Ks[] = {1, 2, 3, 10, 99, 100, 101, 255, 256, 257, 999, 1000, 1001, 4095, 4096, 4097, 9999, 10000, 10001, 32767, 32768, 32769, 65535, 65536, 65537, 99990};
        // (every bound up to 10001 on every dataset; the longer scripts on the first dataset that has both kinds of trials)
        static bool long_done = false;
        const size_t nK = long_done ? 19 : sizeof Ks / sizeof Ks[0];
        long_done = true;
        for (size_t ia = 0; ia < 1; ia++)
          for (size_t ir = 0; ir < rej.size(); ir += std::max<size_t>(1, rej.size() - 1)) {
            Seq r0;
            r0.v = acc[ia];
            double x1 = -1, x2 = -1;
            g.shoot_e1_e2(r0, x1, x2);
            for (size_t ik = 0; ik < nK; ik++) {
              long K = Ks[ik];
              Seq r;
              r.horizon = 300000;
              for (long k = 0; k < K; k++) r.v.insert(r.v.end(), rej[ir].begin(), rej[ir].end());
              r.v.insert(r.v.end(), acc[ia].begin(), acc[ia].end());
              double e1 = -1, e2 = -1;
              bool threw = false;
              g_eval++;
              try { g.shoot_e1_e2(r, e1, e2); } catch (std::exception &) { threw = true; }
              if (threw || e1 != x1 || e2 != x2 || r.i != (size_t)(3 * (K + 1))) {
                V(ds + ":rej:script", fmt("%s: %ld rejected trials (%.3g,%.3g,%.3g) then the accepted trial (%.3g,%.3g,%.3g): pair (%.17g, %.17g) after %zu deviates%s, the accepted trial alone gives (%.17g, %.17g)",
                                          ds.c_str(), K, rej[ir][0], rej[ir][1], rej[ir][2], acc[ia][0], acc[ia][1], acc[ia][2], e1, e2, r.i, threw ? " (exception)" : "", x1, x2));
                break;
              }
              g_nontrivial++;
            }
          }
      }
    }
  } catch (std::exception & e) {
    V(ds + ":rej:init", ds + ": rejection generator does not initialise on an encoder-written dataset: " + e.what());
  }
  if (g_samples.size() < 3) g_samples.push_back(fmt("%s: n=%d e=[%g,%g] qbb=%g E1cdf[0]=%.9g", ds.c_str(), x.n, x.emin, x.emax, x.qbb, x.e1[0]));
}

// ---- one generator object taken through initialise(A) -> reset -> initialise(B) must sample exactly like a fresh object
// initialised on B (decoded tables of a previous dataset must not survive reset), for both sampling methods on both sides
static void check_reuse(const std::string & root, const std::string & dsA, const std::string & dsB)
{
  using G = bxdecay0::dbd_gA;
  const G::shooting_type METH[2] = {G::SHOOTING_INVERSE_TRANSFORM_METHOD, G::SHOOTING_REJECTION};
  const double us[] = {1e-12, 0.1, 0.3, 0.5, 0.7, 0.9, 1 - 1e-12};
  for (int ma = 0; ma < 2; ma++)
    for (int mb = 0; mb < 2; mb++) {
      auto conf = [&](G & g, const std::string & ds, int m) {
        setenv("BXDECAY0_DBD_GA_DATA_DIR", (root + "/" + ds).c_str(), 1);
        g.set_nuclide("Test");
        g.set_process(G::PROCESS_G0);
        g.set_shooting(METH[m]);
        g.initialize();
      };
      G reused, fresh;
      try {
        conf(reused, dsA, ma);
        Seq r;
        double e1, e2;
        r.horizon = 300000;
        reused.shoot_e1_e2(r, e1, e2);
        reused.reset();
      } catch (std::exception &) {
        continue; // A not usable with this method (pdf-only dataset): nothing to carry over
      }
      bool ok1 = true, ok2 = true;
      try { conf(reused, dsB, mb); } catch (std::exception &) { ok1 = false; }
      try { conf(fresh, dsB, mb); } catch (std::exception &) { ok2 = false; }
      std::string key = dsB + ":after:" + dsA + fmt(":m%d%d", ma, mb);
      if (ok1 != ok2) {
        V("reuse:" + key + ":init", fmt("initialise(%s) after initialise(%s)+reset %s, on a new object it %s", dsB.c_str(), dsA.c_str(), ok1 ? "succeeds" : "throws", ok2 ? "succeeds" : "throws"));
        continue;
      }
      if (!ok1) continue;
      for (double a : us)
        for (double b : us) {
          Seq r1, r2;
          r1.v = {a, b, 0.5};
          r2.v = r1.v;
          r1.horizon = r2.horizon = 300000;
          double x1 = -1, y1 = -1, x2 = -2, y2 = -2;
          bool t1 = false, t2 = false;
          try { reused.shoot_e1_e2(r1, x1, y1); } catch (std::exception &) { t1 = true; }
          try { fresh.shoot_e1_e2(r2, x2, y2); } catch (std::exception &) { t2 = true; }
          g_eval++;
          g_nontrivial++;
          if (t1 != t2 || (!t1 && (x1 != x2 || y1 != y2 || r1.i != r2.i)))
            V("reuse:" + key, fmt("deviates (%.17g, %.17g): object re-initialised on %s after %s gives e1=%.17g e2=%.17g (%zu deviates), a new object e1=%.17g e2=%.17g (%zu)", a, b,
                                  dsB.c_str(), dsA.c_str(), x1, y1, r1.i, x2, y2, r2.i));
        }
    }
}

// ---- the dataset is selected by (version, nuclide, process): dataset B installed under root A as another version / another
// nuclide / another process must be what an object configured for that version / nuclide / process samples - exactly like an
// object that finds B at the default place - and the default place must still give A (both methods)
#include <filesystem>
static void check_selection(const std::string & root, const std::string & dsA, const std::string & dsB)
{
  using G = bxdecay0::dbd_gA;
  namespace fs = std::filesystem;
  const G::shooting_type METH[2] = {G::SHOOTING_INVERSE_TRANSFORM_METHOD, G::SHOOTING_REJECTION};
  struct Variant { const char * tag; const char * version; const char * nuclide; G::process_type process; const char * dir; };
  const Variant VAR[] = {{"version v2.0", "v2.0", "Test", G::PROCESS_G0, "data/dbd_gA/v2.0/Test/g0"},
                         {"process g2", "", "Test", G::PROCESS_G2, "data/dbd_gA/v1.0/Test/g2"},
                         {"process g22", "", "Test", G::PROCESS_G22, "data/dbd_gA/v1.0/Test/g22"},
                         {"process g4", "", "Test", G::PROCESS_G4, "data/dbd_gA/v1.0/Test/g4"},
                         {"nuclide Se82", "", "Se82", G::PROCESS_G0, "data/dbd_gA/v1.0/Se82/g0"}};
  std::error_code ec;
  const double us[] = {1e-12, 0.2, 0.5, 0.8, 1 - 1e-12};
  for (int m = 0; m < 2; m++) {
    for (auto & v : VAR) {
      fs::create_directories(root + "/" + dsA + "/" + v.dir, ec);
      for (auto & e : fs::directory_iterator(root + "/" + dsB + "/data/dbd_gA/v1.0/Test/g0", ec))
        fs::copy_file(e.path(), root + "/" + dsA + "/" + v.dir + "/" + e.path().filename().string(), fs::copy_options::overwrite_existing, ec);
    }
    auto conf = [&](G & g, const std::string & ds, const Variant * v) {
      setenv("BXDECAY0_DBD_GA_DATA_DIR", (root + "/" + ds).c_str(), 1);
      g.set_nuclide(v ? v->nuclide : "Test");
      g.set_process(v ? v->process : G::PROCESS_G0);
      if (v && v->version[0]) g.set_dataset_version(v->version);
      g.set_shooting(METH[m]);
      g.initialize();
    };
    auto same = [&](G & x, G & y, const std::string & key, const std::string & what) {
      for (double a : us)
        for (double b : us) {
          Seq r1, r2;
          r1.v = {a, b, 0.5};
          r2.v = r1.v;
          r1.horizon = r2.horizon = 300000;
          double x1 = -1, y1 = -1, x2 = -2, y2 = -2;
          bool t1 = false, t2 = false;
          try { x.shoot_e1_e2(r1, x1, y1); } catch (std::exception &) { t1 = true; }
          try { y.shoot_e1_e2(r2, x2, y2); } catch (std::exception &) { t2 = true; }
          g_eval++;
          g_nontrivial++;
          if (t1 != t2 || (!t1 && (x1 != x2 || y1 != y2 || r1.i != r2.i))) {
            V(key, fmt("deviates (%.17g, %.17g), method %d: %s gives e1=%.17g e2=%.17g, the dataset itself e1=%.17g e2=%.17g", a, b, m, what.c_str(), x1, y1, x2, y2));
            return;
          }
        }
    };
    for (auto & v : VAR) {
      G sel, ref;
      bool ok1 = true, ok2 = true;
      try { conf(sel, dsA, &v); } catch (std::exception &) { ok1 = false; }
      try { conf(ref, dsB, nullptr); } catch (std::exception &) { ok2 = false; }
      std::string key = std::string("select:") + v.tag;
      if (ok1 != ok2) {
        V(key + ":init", fmt("%s installed as %s next to %s: initialisation %s, at its own place it %s (method %d)", dsB.c_str(), v.tag, dsA.c_str(), ok1 ? "succeeds" : "throws", ok2 ? "succeeds" : "throws", m));
        continue;
      }
      if (!ok1) continue;
      same(sel, ref, key, fmt("an object configured for %s under a root that also holds %s at the default place", v.tag, dsA.c_str()));
    }
    // and the default selection is not disturbed by the neighbours
    {
      G dflt, ref;
      bool ok1 = true, ok2 = true;
      try { conf(dflt, dsA, nullptr); } catch (std::exception &) { ok1 = false; }
      for (auto & v : VAR) fs::remove_all(root + "/" + dsA + "/" + v.dir, ec);
      try { conf(ref, dsA, nullptr); } catch (std::exception &) { ok2 = false; }
      if (ok1 && ok2) same(dflt, ref, "select:default", "the default selection with other versions / processes / nuclides installed next to it");
      else if (ok1 != ok2) V("select:default:init", "the default selection initialises differently with other versions / processes / nuclides installed next to it");
    }
  }
}

// ---- a sampler that has already produced many pairs must sample like a new one: N shots on a recorded stream, then a grid of
// scripted trials (proposal x acceptance deviate, incl. acceptance deviates just below 1) on the used and on a new object
static void check_long_history(const std::string & root, const std::string & ds, long nshots)
{
  using G = bxdecay0::dbd_gA;
  const G::shooting_type METH[2] = {G::SHOOTING_INVERSE_TRANSFORM_METHOD, G::SHOOTING_REJECTION};
  const double us[] = {1e-12, 0.1, 0.3, 0.5, 0.7, 0.9, 1 - 1e-12};
  const double cs[] = {1e-12, 0.3, 0.6, 0.8, 0.9, 0.95, 0.99, 0.999, 1 - 1e-12};
  for (int m = 0; m < 2; m++) {
    G used, fresh;
    try {
      for (G * g : {&used, &fresh}) {
        setenv("BXDECAY0_DBD_GA_DATA_DIR", (root + "/" + ds).c_str(), 1);
        g->set_nuclide("Test");
        g->set_process(G::PROCESS_G0);
        g->set_shooting(METH[m]);
        g->initialize();
      }
    } catch (std::exception &) {
      continue; // this dataset does not have the table of this method
    }
    {
      Seq r;
      r.phase = 4711;
      r.horizon = (size_t)200000000; // (a sampler that stops accepting must end as a violation, not as a hang)
      double e1, e2;
      try {
        for (long k = 0; k < nshots; k++) used.shoot_e1_e2(r, e1, e2);
      } catch (std::exception & e) {
        V("long:" + ds + ":exception", ds + fmt(": shot of a %ld-shot history throws: ", nshots) + e.what());
        continue;
      }
    }
    for (double a : us)
      for (double b : us)
        for (double c : cs) {
          Seq r1, r2;
          r1.v = {a, b, c};
          r2.v = r1.v;
          r1.horizon = r2.horizon = 300000;
          double x1 = -1, y1 = -1, x2 = -2, y2 = -2;
          bool t1 = false, t2 = false;
          try { used.shoot_e1_e2(r1, x1, y1); } catch (std::exception &) { t1 = true; }
          try { fresh.shoot_e1_e2(r2, x2, y2); } catch (std::exception &) { t2 = true; }
          g_eval++;
          g_nontrivial++;
          if (t1 != t2 || (!t1 && (x1 != x2 || y1 != y2 || r1.i != r2.i))) {
            V("long:history", fmt("%s, method %d, deviates (%.17g, %.17g, %.17g): after %ld earlier shots the object gives e1=%.17g e2=%.17g (%zu deviates), a new object e1=%.17g e2=%.17g (%zu)", ds.c_str(), m, a, b,
                                  c, nshots, x1, y1, r1.i, x2, y2, r2.i));
            return;
          }
        }
  }
}

// run fn in a forked child (an abort or crash inside the library is an outcome, not the end of the check) and merge its findings
static void contained(const std::string & label, const std::function<void()> & fn)
{
  int pfd[2];
  if (pipe(pfd)) { fn(); return; }
  pid_t p = fork();
  if (p == 0) {
    close(pfd[0]);
    alarm(600);
    g_viol.clear();
    long e0 = g_eval, n0 = g_nontrivial;
    fn();
    std::string buf = std::to_string(g_eval - e0) + " " + std::to_string(g_nontrivial - n0) + "\n";
    for (auto & kv : g_viol) buf += kv.first + "\t" + kv.second + "\n";
    size_t off = 0;
    while (off < buf.size()) {
      ssize_t w = write(pfd[1], buf.data() + off, buf.size() - off);
      if (w <= 0) break;
      off += w;
    }
    _exit(0);
  }
  close(pfd[1]);
  std::string buf;
  char b[65536];
  ssize_t r;
  while ((r = read(pfd[0], b, sizeof b)) > 0) buf.append(b, r);
  close(pfd[0]);
  int st = 0;
  waitpid(p, &st, 0);
  if (!WIFEXITED(st) || WEXITSTATUS(st) != 0) {
    V("crash:" + label, label + ": the process died (" + (WIFSIGNALED(st) ? "signal " + std::to_string(WTERMSIG(st)) : "exit " + std::to_string(WEXITSTATUS(st))) + ")");
    return;
  }
  std::istringstream is(buf);
  std::string line;
  std::getline(is, line);
  long de = 0, dn = 0;
  sscanf(line.c_str(), "%ld %ld", &de, &dn);
  g_eval += de;
  g_nontrivial += dn;
  while (std::getline(is, line)) {
    size_t t = line.find('\t');
    if (t != std::string::npos) V(line.substr(0, t), line.substr(t + 1));
  }
}

// ---- the generator class maps each gA mode onto the sampler of the matching process and nuclide: its events equal those of
// a dbd_gA object configured directly (datasets differ between all (nuclide, process) pairs)
#include <bxdecay0/decay0_generator.h>
static void check_modes(const std::string & tree)
{
  using G = bxdecay0::dbd_gA;
  setenv("BXDECAY0_DBD_GA_DATA_DIR", tree.c_str(), 1);
  const struct { int mode; G::process_type proc; const char * pname; } MODES[] = {{21, G::PROCESS_G0, "g0"}, {22, G::PROCESS_G2, "g2"}, {23, G::PROCESS_G22, "g22"}, {24, G::PROCESS_G4, "g4"}};
  for (const char * nuc : {"Se82", "Mo100", "Cd116", "Nd150"})
    for (auto & md : MODES) {
      std::string key = fmt("ga:mode:%s:%s", nuc, md.pname);
      try {
        bxdecay0::decay0_generator gen;
        gen.set_decay_category(bxdecay0::decay0_generator::DECAY_CATEGORY_DBD);
        gen.set_decay_isotope(nuc);
        gen.set_decay_dbd_level(0);
        gen.set_decay_dbd_mode((bxdecay0::dbd_mode_type)md.mode);
        Seq r0;
        gen.initialize(r0);
        G direct;
        direct.set_nuclide(nuc);
        direct.set_process(md.proc);
        direct.set_shooting(G::SHOOTING_INVERSE_TRANSFORM_METHOD);
        direct.initialize();
        for (uint64_t ph = 1; ph <= 8; ph++) {
          Seq r1, r2;
          r1.phase = r2.phase = ph;
          bxdecay0::event e1, e2;
          gen.shoot(r1, e1);
          direct.shoot(r2, e2);
          g_eval++;
          g_nontrivial++;
          bool same = e1.get_particles().size() == e2.get_particles().size() && r1.i == r2.i;
          for (size_t k = 0; same && k < e1.get_particles().size(); k++) {
            const auto &p = e1.get_particles()[k], &q = e2.get_particles()[k];
            same = p.get_code() == q.get_code() && p.get_px() == q.get_px() && p.get_py() == q.get_py() && p.get_pz() == q.get_pz() && p.get_time() == q.get_time();
          }
          if (!same) V(key, fmt("decay0_generator(%s, mode %d) does not yield the events of dbd_gA(%s, process %s) on the same deviates (stream %llu)", nuc, md.mode, nuc, md.pname, (unsigned long long)ph));
        }
      } catch (std::exception & e) {
        V(key + ":exception", fmt("%s mode %d: %s", nuc, md.mode, e.what()));
      }
    }
}

// an abort or crash of the library inside the in-process dataset sequence (it must stay one process: the history of earlier
// datasets is the point) ends as a violation naming the dataset, not as a dead harness
static char g_stage[300];
static char g_crash_path[600];
static void on_fatal(int sig)
{
  int fd = open(g_crash_path, O_WRONLY | O_CREAT | O_TRUNC, 0644);
  if (fd >= 0) {
    char b[64];
    int n = snprintf(b, sizeof b, "signal %d\n", sig);
    ssize_t w = write(fd, b, n);
    w = write(fd, g_stage, strlen(g_stage));
    (void)w;
    close(fd);
  }
  _exit(77);
}

int main(int argc, char ** argv)
{
  std::string list, out = "/dev/stdout", root, modes_tree;
  for (int i = 1; i < argc; i++) {
    std::string a = argv[i];
    if (a == "--list" && i + 1 < argc) list = argv[++i];
    else if (a == "--out" && i + 1 < argc) out = argv[++i];
    else if (a == "--root" && i + 1 < argc) root = argv[++i];
    else if (a == "--modes-tree" && i + 1 < argc) modes_tree = argv[++i];
  }
  FILE * f = freopen("/dev/null", "w", stderr);
  (void)f;
  std::clog.rdbuf(nullptr);
  std::ifstream in(list);
  std::string ds;
  std::vector<std::string> all;
  while (std::getline(in, ds))
    if (!ds.empty()) all.push_back(ds);
  for (auto & d : all) pristine_digest(root, d); // before this process samples anything
  snprintf(g_crash_path, sizeof g_crash_path, "%s.crash", out.c_str());
  unlink(g_crash_path);
  {
    struct sigaction sa;
    memset(&sa, 0, sizeof sa);
    sa.sa_handler = on_fatal;
    for (int sg : {SIGSEGV, SIGABRT, SIGBUS, SIGFPE, SIGILL}) sigaction(sg, &sa, nullptr);
  }
  for (size_t di = 0; di < all.size(); di++) {
    const std::string & d = all[di];
    snprintf(g_stage, sizeof g_stage, "%s (dataset #%zu of this process%s%s)", d.c_str(), di + 1, di ? ", after " : "", di ? all[di - 1].c_str() : "");
    check_dataset(root, d);
    auto it = g_pristine.find(d);
    if (it != g_pristine.end()) {
      g_eval++;
      g_nontrivial++;
      if (sampler_digest(root, d) != it->second)
        V("history:" + d, d + ": the pairs sampled for fixed deviate streams (both methods, 16 streams) differ between a pristine process and this process after other datasets were sampled");
    }
  }
  for (int sg : {SIGSEGV, SIGABRT, SIGBUS, SIGFPE, SIGILL}) signal(sg, SIG_DFL);
  if (!modes_tree.empty()) contained("generator-level gA modes", [&]() { check_modes(modes_tree); });
  // consecutive datasets of the list differ in size, range or shape: both orders
  for (size_t k = 0; k + 1 < all.size(); k++) {
    contained("reuse " + all[k + 1] + " after " + all[k], [&]() { check_reuse(root, all[k], all[k + 1]); });
    contained("reuse " + all[k] + " after " + all[k + 1], [&]() { check_reuse(root, all[k + 1], all[k]); });
  }
  for (size_t k = 0; k < all.size(); k += 20) contained("long history " + all[k], [&]() { check_long_history(root, all[k], 30000); });
  for (size_t k = 0; k + 1 < all.size(); k += 12) contained("selection " + all[k + 1] + " next to " + all[k], [&]() { check_selection(root, all[k], all[k + 1]); });
  FILE * fo = fopen(out.c_str(), "w");
  fprintf(fo, "{\"evaluations\":%ld,\"nontrivial\":%ld,\"datasets\":%ld,\"cdf_lines\":%ld,\"samples\":[", g_eval, g_nontrivial, g_datasets, g_lines);
  for (size_t k = 0; k < g_samples.size(); k++) fprintf(fo, "%s%s", k ? "," : "", vx::jstr(g_samples[k]).c_str());
  fprintf(fo, "],\"violations\":[");
  bool first = true;
  for (auto & kv : g_viol) {
    fprintf(fo, "%s{\"key\":%s,\"text\":%s}", first ? "" : ",", vx::jstr(kv.first).c_str(), vx::jstr(kv.second).c_str());
    first = false;
  }
  fprintf(fo, "]}\n");
  fclose(fo);
  return 0;
}
