"""C01 — background/calibration decays reproduce the Decay0 reference, draw for draw (DESIGN §2 C01)."""
import dxlib, vlib


def aggregate(rep, results, ref_only, oracles, api, note):
    cov = rep.coverage
    tot = dict(states=0, transitions=0, evaluations=0, distinct=0, validated=0, ambiguous=0, thresholds=0, model_runs=0, horizon=0, nonrobust=0, sweep=0)
    samples = []
    exhaustive = True
    layer_execs = {}
    ncfg = 0
    for r in results:
        if 'crashed' in r:
            rep.violation('%s:crash' % r['key'], 'explorer child died (%s) while exploring %s' % (r['crashed'], r['key']))
            continue
        if ref_only and r['ref_ier'] != 0:
            continue  # not a configuration of the reference: outside this property (C04/C05 cover it)
        ncfg += 1
        tot['states'] += r['states']; tot['transitions'] += r['transitions']; tot['evaluations'] += r['executions']
        tot['distinct'] += r['distinct']; tot['validated'] += r['validated']; tot['ambiguous'] += r['ambiguous']
        tot['thresholds'] += r['thresholds']; tot['model_runs'] += r['model_runs']; tot['horizon'] += r['horizon']
        tot['nonrobust'] += r.get('nonrobust', 0); tot['sweep'] += r.get('sweep_execs', 0)
        if r['ccap_hit'] or r['deadline_hit'] or not r['c_exhaustive']:
            exhaustive = False
        for k, v in r['layer_execs'].items():
            layer_execs[k] = layer_execs.get(k, 0) + v
        if len(samples) < 6 and r['samples']:
            samples.append({'config': r['key'], 'execution': r['samples'][-1]})
        for v in r['violations']:
            if v['oracle'] not in oracles:
                continue
            if v.get('replay') == 'NONDETERMINISTIC':
                raise SystemExit('HARNESS-ERROR: nondeterministic replay for %s' % r['key'])
            key = '%s:%s:%s' % (r['key'], v['oracle'], dxlib.why_class(v['why']))
            rep.violation(key, '%s: %s (forced=%s, model margin=%s)' % (r['key'], v['why'], v['forced'], v['margin']), dxlib.replay_text(r, v, r.get('api', api)))
    if dxlib.SKIPPED:
        exhaustive = False
    cov['configurations_not_explored_before_the_deadline'] = dxlib.SKIPPED
    cov.update({
        'states': tot['states'], 'transitions': tot['transitions'], 'evaluations': tot['evaluations'],
        'distinct_nontrivial': tot['distinct'], 'traces_validated_against_impl': tot['validated'],
        'configurations': ncfg, 'thresholds_discovered': tot['thresholds'], 'model_discovery_runs': tot['model_runs'],
        'ambiguous_executions': tot['ambiguous'], 'executions_too_close_to_a_threshold_to_judge': tot['nonrobust'], 'shape_sweep_executions': tot['sweep'], 'horizon_executions': tot['horizon'], 'executions_per_layer': layer_execs,
        'exhaustive': exhaustive, 'samples': samples or [{'note': 'no execution'}],
        'rule': note, 'reference_sha256': vlib.ref_sha(),
    })
    return tot


def run(tier, rep):
    names = dxlib.bkg_all()
    cfg = ['bkg %s' % n for n in names]
    if tier == 'quick':
        layers, phases, deadline = 'A,B1', 1, 240
    else:
        layers, phases, deadline = 'A,B2,C', 3, 1500
    res, d = dxlib.run_dx('plain', cfg, 'c01', layers, 'ref', phases=phases, deadline=deadline, extra=[] if tier == 'quick' else ['--c-cap', '3000000'])
    known = [r for r in res if r.get('ref_available') or 'crashed' in r]  # (a crashed exploration is reported as a violation by aggregate)
    if len(known) < 61 and not dxlib.SKIPPED:
        raise SystemExit('HARNESS-ERROR: the reference model accepts only %d background names (61 expected)' % len(known))
    # the edge coverage (layer A) again under squeezed default streams: every unforced deviate of the generation stage mapped
    # into a sub-interval of (0,1), so that the executions around each edge differ from the fair stream's in every later draw
    squeezes = dxlib.SQUEEZES_QUICK if tier == 'quick' else dxlib.SQUEEZES
    for sq in squeezes:
        rs, ds = dxlib.run_dx('plain', cfg, 'c01s', 'A', 'ref', deadline=deadline, extra=['--squeeze', sq, '--horizon', '30000'])
        for r in rs:
            r['squeeze_pass'] = sq
        res += rs
    rep.coverage['squeezed_default_streams'] = list(squeezes)
    aggregate(rep, res, True, ('ref',), 'genbbsub',
              'state = draw-site context of the reference (Fortran line + call stack), transition = (site, alphabet value) edge; '
              'alphabet = tails, 0.5 and both sides of every decision threshold solved from the model\'s comparisons; layers %s, '
              'every execution replayed on model and port through GENBBsub/genbbsub; layer A repeated under squeezed default streams; distinct = distinct (site sequence, species list)' % layers)
    rep.coverage['reference_names'] = len(known)
    rep.assumptions += ['F77->C++ transpilation of the reference is faithful (tools/f2cxx.py; REAL evaluated in double)',
                        'CERNLIB stand-ins in ref/cernlib_shim.cc', 'decisions are affine in the deciding deviate',
                        'continuous draws take tails, 0.5 and the default-stream value only']


def replay(path):
    return dxlib.replay(path)
