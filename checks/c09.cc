// c09 — explicit-state model checking of the configure/initialise/shoot/reset protocol of
// decay0_generator (DESIGN §2 C09). A state is the operation history that reaches it, replayed on a
// fresh object; states are merged by the canonical key of the REFERENCE state machine below; every
// transition compares exception/no exception and every getter with the reference machine, and in
// initialised states a probe shot with the shot of a fresh instance configured the same way.
//
//   c09 --depth N --out FILE [--modes 1,7,21,0] [--with-ga-data 0|1]
#include "dxcore.hpp"
#include <bxdecay0/mdl_event_op.h>
#include <memory>
#include <csignal>
#include <fcntl.h>
#include <unistd.h>

using bxdecay0::decay0_generator;

// ---------------------------------------------------------------- reference machine
struct M {
  int cat = 0; // 0 undefined, 1 dbd, 2 background
  std::string iso;
  int level = -1;
  int mode = 0;
  double wmin = NAN, wmax = NAN;
  int nops = 0;
  bool init = false;
  int count = 0;
  std::string key() const
  {
    char b[256];
    snprintf(b, sizeof b, "c%d|%s|l%d|m%d|w%g,%g|o%d|i%d|n%d", cat, iso.c_str(), level, mode, wmin, wmax, nops, (int)init, count);
    return b;
  }
};

static bool GA_DATA = false;
static const std::set<int> WINDOW_MODES = {4, 5, 6, 8, 10, 13, 14, 15, 16, 19};

// acceptance rules: the transpiled reference with the kernel stubbed (cached)
static bool ref_rules(int i2, const std::string & iso, int level, int mode, double & e0)
{
  static std::map<std::string, std::pair<bool, double>> cache;
  std::string k = std::to_string(i2) + iso + "/" + std::to_string(level) + "/" + std::to_string(mode);
  auto it = cache.find(k);
  if (it != cache.end()) { e0 = it->second.second; return it->second.first; }
  d0ref::init_blockdata();
  d0ref::mon.reset();
  d0ref::mon.stub_bb = true;
  d0ref::fstr chn(16);
  chn.assign(d0ref::FS(iso.c_str()));
  int lev = level, md = mode, ist = -1, ier = 0;
  Forced none;
  vx::Source s;
  s.forced = &none;
  d0ref::mon.source = ref_source;
  d0ref::mon.ctx = &s;
  try {
    d0ref::f_genbbsub(i2, chn, lev, md, ist, ier);
  } catch (std::exception &) {
    ier = -98;
  }
  bool ok = (ier == 0);
  if (i2 == 1 && mode == 20 && level != 0) ok = false;
  e0 = 0;
  if (ok && i2 == 1) {
    double q = d0ref::sv_genbbsub_qbb, el = d0ref::g.c_enrange.m3 / 1000.0, zd = d0ref::sv_genbbsub_zdbb, ek = d0ref::sv_genbbsub_ek;
    e0 = q - el;
    if (zd < 0) e0 = q - el - 4 * 0.51099906;
    if (mode == 9 || mode == 10) e0 = q - el - ek - 2 * 0.51099906;
    if (mode == 11 || mode == 12) e0 = q - el - 2 * ek;
  }
  cache[k] = {ok, e0};
  return ok;
}

static bool valid(const M & m)
{
  if (m.cat == 0 || m.iso.empty()) return false;
  double e0;
  if (m.cat == 2) return ref_rules(2, m.iso, 0, 0, e0) || m.iso == "Po210"; // (alphabet only uses reference names)
  if (m.mode < 1 || m.mode > 24) return false;
  if (m.level == -1) return false;
  if (!std::isnan(m.wmax) && !(m.wmin < m.wmax)) return false;
  if (m.mode >= 21) {
    static const std::set<std::string> ga = {"Se82", "Mo100", "Cd116", "Nd150"};
    return ga.count(m.iso) && m.level == 0 && GA_DATA;
  }
  if (!ref_rules(1, m.iso, m.level, m.mode, e0)) return false;
  if (WINDOW_MODES.count(m.mode) && !std::isnan(m.wmin) && !std::isnan(m.wmax)) {
    // effective window must overlap the available energy
    double lo = std::max(0.0, (double)(float)m.wmin), hi = std::min(e0, (double)(float)m.wmax);
    if (!(lo < hi)) return false;
  }
  return true;
}

// ---------------------------------------------------------------- operations
struct Op {
  std::string name;
  int kind; // 0 cat,1 iso,2 level,3 mode,4 window,5 addop,6 addnull,7 init,8 shoot,9 reset,10 destroy
  int iarg = 0;
  std::string sarg;
  double a = 0, b = 0;
};

static std::shared_ptr<bxdecay0::momentum_direction_lock_event_op> make_mdl()
{
  auto op = std::make_shared<bxdecay0::momentum_direction_lock_event_op>();
  op->set(bxdecay0::INVALID_PARTICLE, 0, 0.0, 0.0, 1.0, 0.4, false);
  return op;
}

struct Impl {
  std::unique_ptr<decay0_generator> g{new decay0_generator};
};

struct Obs {
  bool threw = false;
  std::string what;
  Ev ev; // for shoot
};

static Ev shoot_probe(decay0_generator & g, uint64_t phase)
{
  Forced none;
  PortRand r;
  r.s.forced = &none;
  r.s.phase = phase;
  r.horizon = 200000;
  bxdecay0::event ev;
  Ev e;
  try {
    g.shoot(r, ev);
  } catch (HorizonHit &) {
    e.horizon = true;
  } catch (std::exception & x) {
    e.threw = true;
    e.what = x.what();
  }
  for (auto & p : ev.get_particles()) {
    e.code.push_back((int)p.get_code());
    e.t.push_back(p.get_time());
    e.px.push_back(p.get_px());
    e.py.push_back(p.get_py());
    e.pz.push_back(p.get_pz());
  }
  e.evtime = ev.get_time();
  e.label = ev.get_generator();
  e.ndraws = r.i;
  return e;
}

static Obs apply_impl(Impl & I, const Op & op, int shot_index)
{
  Obs o;
  decay0_generator & g = *I.g;
  try {
    switch (op.kind) {
    case 0: g.set_decay_category((decay0_generator::decay_category_type)op.iarg); break;
    case 1: g.set_decay_isotope(op.sarg); break;
    case 2: g.set_decay_dbd_level(op.iarg); break;
    case 3: g.set_decay_dbd_mode((bxdecay0::dbd_mode_type)op.iarg); break;
    case 4: g.set_decay_dbd_esum_range(op.a, op.b); break;
    case 5: g.add_operation(make_mdl()); break;
    case 6: g.add_operation(bxdecay0::event_op_ptr()); break;
    case 7: {
      Forced none;
      PortRand r;
      r.s.forced = &none;
      r.s.phase = 4242;
      r.horizon = 3000000;
      g.initialize(r);
      break;
    }
    case 8: {
      // shoot through the raw API so that a refusal is observed as the exception it is
      Forced none;
      PortRand r;
      r.s.forced = &none;
      r.s.phase = 777; (void)shot_index; // same deviates for every shot: the event must not depend on the shot number
      r.horizon = 200000;
      bxdecay0::event ev;
      g.shoot(r, ev);
      for (auto & p : ev.get_particles()) {
        o.ev.code.push_back((int)p.get_code());
        o.ev.t.push_back(p.get_time());
        o.ev.px.push_back(p.get_px());
        o.ev.py.push_back(p.get_py());
        o.ev.pz.push_back(p.get_pz());
      }
      o.ev.evtime = ev.get_time();
      o.ev.label = ev.get_generator();
      o.ev.ndraws = r.i;
      break;
    }
    case 9: g.reset(); break;
    case 10: I.g.reset(new decay0_generator); break;
    }
  } catch (HorizonHit &) {
    o.threw = true;
    o.what = "HORIZON";
  } catch (std::exception & e) {
    o.threw = true;
    o.what = e.what();
  }
  return o;
}

// returns whether the reference machine says the op throws; updates m
static bool apply_model(M & m, const Op & op)
{
  switch (op.kind) {
  case 0: if (m.init) return true; m.cat = op.iarg; return false;
  case 1: if (m.init) return true; m.iso = op.sarg; return false;
  case 2: if (m.init) return true; m.level = op.iarg; return false;
  case 3: if (m.init) return true; m.mode = op.iarg; return false;
  case 4: if (m.init) return true; m.wmin = op.a; m.wmax = op.b; return false;
  case 5: if (m.init) return true; m.nops++; return false;
  case 6: return true;
  case 7: if (m.init) return true; if (!valid(m)) return true; m.init = true; return false;
  case 8: if (!m.init) return true; m.count++; return false;
  case 9: m = M(); return false;
  case 10: m = M(); return false;
  }
  return false;
}

static std::string getters_diff(const decay0_generator & g, const M & m)
{
  std::ostringstream d;
  if (g.is_initialized() != m.init) d << "is_initialized=" << g.is_initialized() << " (model " << m.init << "); ";
  if (g.has_decay_category() != (m.cat != 0)) d << "has_decay_category; ";
  if ((int)g.get_decay_category() != m.cat) d << "get_decay_category=" << (int)g.get_decay_category() << " (model " << m.cat << "); ";
  if (g.is_dbd() != (m.cat == 1) || g.is_background() != (m.cat == 2)) d << "is_dbd/is_background; ";
  if (g.has_decay_isotope() != !m.iso.empty() || g.get_decay_isotope() != m.iso) d << "decay_isotope='" << g.get_decay_isotope() << "' (model '" << m.iso << "'); ";
  if (g.has_decay_dbd_level() != (m.level != -1) || g.get_decay_dbd_level() != m.level) d << "dbd_level=" << g.get_decay_dbd_level() << " (model " << m.level << "); ";
  if (g.has_decay_dbd_mode() != (m.mode != 0) || (int)g.get_decay_dbd_mode() != m.mode) d << "dbd_mode=" << (int)g.get_decay_dbd_mode() << " (model " << m.mode << "); ";
  bool hw = !std::isnan(m.wmin) && !std::isnan(m.wmax);
  if (g.has_decay_dbd_esum_range() != hw) d << "has_esum_range; ";
  auto same = [](double a, double b) { return (std::isnan(a) && std::isnan(b)) || a == b; };
  if (!same(g.get_decay_dbd_esum_range_lower(), m.wmin) || !same(g.get_decay_dbd_esum_range_upper(), m.wmax)) d << "esum_range; ";
  if ((int)g.get_operations().size() != m.nops) d << "operations=" << g.get_operations().size() << " (model " << m.nops << "); ";
  if ((int)g.get_event_count() != m.count) d << "event_count=" << g.get_event_count() << " (model " << m.count << "); ";
  return d.str();
}

static std::string defaults_diff(const decay0_generator & g)
{
  decay0_generator fresh;
  std::ostringstream d;
  if (g.has_decay_version() != fresh.has_decay_version()) d << "has_decay_version differs from a new instance; ";
  if (g.is_debug() != fresh.is_debug()) d << "is_debug; ";
  if (!(g.get_to_all_events() == fresh.get_to_all_events())) d << "get_to_all_events=" << g.get_to_all_events() << "; ";
  // the working parameters are reachable through a public getter as well
  const bxdecay0::bbpars & a = g.get_bb_params();
  const bxdecay0::bbpars & b = fresh.get_bb_params();
  auto eqd = [](double x, double y) { return (std::isnan(x) && std::isnan(y)) || x == y; };
#define CMPF(f) if (!eqd(a.f, b.f)) d << "get_bb_params()." #f "=" << a.f << " (new instance " << b.f << "); ";
  CMPF(Qbb) CMPF(Edlevel) CMPF(EK) CMPF(Zdbb) CMPF(Adbb) CMPF(spmax) CMPF(toallevents) CMPF(ebb1) CMPF(ebb2) CMPF(e0)
#undef CMPF
#define CMPI(f) if (a.f != b.f) d << "get_bb_params()." #f "=" << a.f << " (new instance " << b.f << "); ";
  CMPI(modebb) CMPI(levelE) CMPI(itrans02) CMPI(istartbb) CMPI(chdspin)
#undef CMPI
  for (unsigned k = 0; k < bxdecay0::bbpars::SPSIZE; k++)
    if (!eqd(a.spthe1[k], b.spthe1[k])) {
      d << "get_bb_params().spthe1[" << k << "]; ";
      break;
    }
  return d.str();
}

static bool same_ev(const Ev & a, const Ev & b)
{
  return a.code == b.code && a.px == b.px && a.py == b.py && a.pz == b.pz && a.t == b.t && a.ndraws == b.ndraws && a.label == b.label && a.threw == b.threw && a.horizon == b.horizon;
}

// configure a fresh instance like the model state and initialise it
static bool fresh_like(const M & m, Impl & F)
{
  decay0_generator & g = *F.g;
  try {
    g.set_decay_category((decay0_generator::decay_category_type)m.cat);
    g.set_decay_isotope(m.iso);
    if (m.level != -1) g.set_decay_dbd_level(m.level);
    if (m.mode != 0) g.set_decay_dbd_mode((bxdecay0::dbd_mode_type)m.mode);
    if (!(std::isnan(m.wmin) && std::isnan(m.wmax))) g.set_decay_dbd_esum_range(m.wmin, m.wmax);
    for (int k = 0; k < m.nops; k++) g.add_operation(make_mdl());
    Forced none;
    PortRand r;
    r.s.forced = &none;
    r.s.phase = 4242;
    r.horizon = 3000000;
    g.initialize(r);
  } catch (...) {
    return false;
  }
  return true;
}

// a crash inside the library (abort from GSL or an assertion, a wild pointer) must end up as a violation that names the
// history, not as a dead harness: the history being replayed is kept in a static buffer for the signal handler
static char g_hist_buf[4096];
static char g_crash_path[512];
static void on_fatal(int sig)
{
  int fd = open(g_crash_path, O_WRONLY | O_CREAT | O_TRUNC, 0644);
  if (fd >= 0) {
    char b[64];
    int n = snprintf(b, sizeof b, "signal %d\n", sig);
    ssize_t w = write(fd, b, n);
    w = write(fd, g_hist_buf, strlen(g_hist_buf));
    (void)w;
    close(fd);
  }
  _exit(77);
}

int main(int argc, char ** argv)
{
  int depth = 5;
  std::string out = "/dev/stdout", modes = "1,7,21,0", prefix;
  for (int i = 1; i < argc; i++) {
    std::string a = argv[i];
    auto nxt = [&]() { return std::string(i + 1 < argc ? argv[++i] : ""); };
    if (a == "--depth") depth = atoi(nxt().c_str());
    else if (a == "--out") out = nxt();
    else if (a == "--modes") modes = nxt();
    else if (a == "--with-ga-data") GA_DATA = atoi(nxt().c_str()) != 0;
    else if (a == "--prefix") prefix = nxt();
  }
  setenv("BXDECAY0_RESOURCE_DIR", "/repo/resources", 0);
  if (!getenv("DX_VERBOSE")) {
    FILE * f = freopen("/dev/null", "w", stderr);
    (void)f;
  }
  snprintf(g_crash_path, sizeof g_crash_path, "%s.crash", out.c_str());
  unlink(g_crash_path);
  for (int sg : {SIGABRT, SIGSEGV, SIGFPE, SIGBUS, SIGILL}) signal(sg, on_fatal);
  std::vector<Op> ops;
  ops.push_back({"set_category(dbd)", 0, 1});
  ops.push_back({"set_category(background)", 0, 2});
  ops.push_back({"set_category(undefined)", 0, 0});
  for (const char * s : {"Mo100", "Co60", "Xx"}) ops.push_back({std::string("set_isotope(") + s + ")", 1, 0, s});
  for (int l : {0, 1, 99}) ops.push_back({"set_level(" + std::to_string(l) + ")", 2, l});
  {
    std::stringstream ms(modes);
    std::string t;
    while (std::getline(ms, t, ',')) ops.push_back({"set_mode(" + t + ")", 3, atoi(t.c_str())});
  }
  { Op o{"set_esum(0.5,1.5)", 4}; o.a = 0.5; o.b = 1.5; ops.push_back(o); }
  { Op o{"set_esum(1.5,0.5)", 4}; o.a = 1.5; o.b = 0.5; ops.push_back(o); }
  { Op o{"set_esum(1,1)", 4}; o.a = 1.0; o.b = 1.0; ops.push_back(o); }
  // well-ordered but wholly above the available energy: refused by the kernel itself (an exception out of the engine start-up,
  // not one of initialize()'s own checks nor an error code of genbbsub)
  { Op o{"set_esum(3.5,4)", 4}; o.a = 3.5; o.b = 4.0; ops.push_back(o); }
  { Op o{"set_esum(nan,nan)", 4}; o.a = NAN; o.b = NAN; ops.push_back(o); } // the window dropped again
  ops.push_back({"add_operation(MDL)", 5});
  ops.push_back({"add_operation(null)", 6});
  ops.push_back({"initialize", 7});
  ops.push_back({"shoot", 8});
  ops.push_back({"reset", 9});
  ops.push_back({"destroy+new", 10});

  struct Node { std::vector<int> hist; M m; std::string tag; };
  std::map<std::string, int> seen; // key -> depth
  std::deque<Node> frontier;
  {
    // optional start state (--prefix "op;op;..."): the search then begins in the state that history reaches - e.g. right
    // after an initialisation that was refused - instead of at a newly constructed object
    Node n0{{}, M(), ""};
    std::stringstream ps(prefix);
    std::string nm;
    while (std::getline(ps, nm, ';')) {
      if (nm.empty()) continue;
      size_t k = 0;
      while (k < ops.size() && ops[k].name != nm) k++;
      if (k == ops.size()) {
        fprintf(stdout, "HARNESS-ERROR unknown prefix operation %s\n", nm.c_str());
        return 3;
      }
      M before = n0.m;
      bool thr = apply_model(n0.m, ops[k]);
      if (thr) n0.tag = ops[k].name + (ops[k].kind == 7 ? "@" + before.key() : std::string());
      if (ops[k].kind == 10) n0.tag = "";
      n0.hist.push_back((int)k);
    }
    depth += (int)n0.hist.size();
    frontier.push_back(n0);
    seen[n0.m.key() + "|refused-before:" + n0.tag] = 0;
  }
  long transitions = 0, probes = 0, max_depth = 0;
  std::map<std::string, std::string> viol; // key -> text
  std::vector<std::string> samples;
  std::set<std::string> outcomes;
  auto hist_str = [&](const std::vector<int> & h) {
    std::string s;
    for (size_t k = 0; k < h.size(); k++) s += (k ? " ; " : "") + ops[h[k]].name;
    return s;
  };
  bool complete = true;
  while (!frontier.empty()) {
    Node n = frontier.front();
    frontier.pop_front();
    if ((int)n.hist.size() >= depth) { complete = false; continue; }
    for (size_t oi = 0; oi < ops.size(); oi++) {
      const Op & op = ops[oi];
      // bounds that keep the reference machine finite
      if (op.kind == 5 && n.m.nops >= 2) continue;
      if (op.kind == 8 && n.m.count >= 2) continue;
      // replay the history on a fresh object
      {
        std::string hh = hist_str(n.hist) + (n.hist.empty() ? "" : " ; ") + op.name;
        snprintf(g_hist_buf, sizeof g_hist_buf, "%s", hh.c_str());
      }
      Impl I;
      M m;
      int shots = 0;
      for (int h : n.hist) {
        apply_impl(I, ops[h], shots);
        if (ops[h].kind == 8) shots++;
        apply_model(m, ops[h]);
      }
      if (m.key() != n.m.key()) {
        fprintf(stdout, "HARNESS-ERROR replay key mismatch\n");
        return 3;
      }
      M before = m;
      bool expect_throw = apply_model(m, op);
      Obs o = apply_impl(I, op, shots);
      transitions++;
      max_depth = std::max(max_depth, (long)n.hist.size() + 1);
      std::string h2 = hist_str(n.hist) + (n.hist.empty() ? "" : " ; ") + op.name;
      outcomes.insert(op.name.substr(0, op.name.find('(')) + (o.threw ? ":throws" : ":ok"));
      std::string vkey;
      auto V = [&](const std::string & cls, const std::string & text) {
        std::string k = op.name + "@" + before.key() + ":" + cls;
        if (!viol.count(k) && viol.size() < 400) viol[k] = "history [" + h2 + "]: " + text;
      };
      if (o.threw != expect_throw) {
        V(expect_throw ? "no-exception" : "exception", std::string("reference machine says ") + (expect_throw ? "throws" : "succeeds") + ", implementation " + (o.threw ? "throws: " + o.what : "succeeds"));
        // keep the model in step with what was observed? No: the state is not explored further.
        continue;
      }
      std::string gd = getters_diff(*I.g, m);
      if (!gd.empty()) V("getters", "getters differ from the reference machine: " + gd);
      if (op.kind == 9 || op.kind == 10) {
        std::string dd = defaults_diff(*I.g);
        if (!dd.empty()) V("defaults", "after " + op.name + ": " + dd);
      }
      if (op.kind == 7 && !o.threw) {
        // a successful initialisation must leave exactly the working parameters a fresh instance configured alike gets
        // (whatever this object went through before: refused initialisations, resets, other configurations)
        // (the fresh instance's parameters depend on the reference state only: built once per state)
        struct Snap { bool ok; bxdecay0::bbpars pars; double toall; };
        static std::map<std::string, std::shared_ptr<Snap>> fresh_cache;
        auto fc = fresh_cache.find(m.key());
        if (fc == fresh_cache.end()) {
          auto sn = std::make_shared<Snap>();
          Impl F0;
          sn->ok = fresh_like(m, F0);
          if (sn->ok) { sn->pars = F0.g->get_bb_params(); sn->toall = F0.g->get_to_all_events(); }
          fc = fresh_cache.emplace(m.key(), sn).first;
        }
        if (!fc->second->ok) V("init-fresh", "a fresh instance with the same configuration does not initialise");
        else {
          const bxdecay0::bbpars & a = I.g->get_bb_params();
          const bxdecay0::bbpars & b = fc->second->pars;
          auto eqd = [](double x, double y) { return (std::isnan(x) && std::isnan(y)) || x == y; };
          std::string d;
#define CMPF(f) if (!eqd(a.f, b.f)) d += #f " ";
          CMPF(Qbb) CMPF(Edlevel) CMPF(EK) CMPF(Zdbb) CMPF(Adbb) CMPF(spmax) CMPF(toallevents) CMPF(ebb1) CMPF(ebb2) CMPF(e0)
#undef CMPF
          if (a.modebb != b.modebb) d += "modebb ";
          if (a.levelE != b.levelE) d += "levelE ";
          if (a.itrans02 != b.itrans02) d += "itrans02 ";
          for (unsigned k = 0; k < bxdecay0::bbpars::SPSIZE; k++)
            if (!eqd(a.spthe1[k], b.spthe1[k])) { d += "spthe1 "; break; }
          if (!(I.g->get_to_all_events() == fc->second->toall)) d += "get_to_all_events ";
          if (!d.empty()) V("init-params", "after this initialisation the working parameters differ from those of a fresh instance configured the same way: " + d);
        }
      }
      if (op.kind == 8 && !o.threw) {
        // C07-style probe: the shot must equal the same shot of a fresh instance configured alike
        Impl F;
        if (!fresh_like(before, F)) V("probe", "a fresh instance with the same configuration does not initialise");
        else {
          // bring the fresh instance to the same event count with the same streams
          Ev fe = apply_impl(F, ops[oi], 0).ev;
          probes++;
          if (!same_ev(fe, o.ev)) V("probe", "shot differs from the shot of a fresh instance configured the same way");
          InvStats st;
          Config c;
          c.cat = before.cat == 1 ? "dbd" : "bkg";
          c.name = before.iso;
          std::string w = check_c04(c, o.ev, st);
          if (!w.empty()) V("c04", "invalid event: " + w);
        }
      }
      // auxiliary entry points, applied as leaves after this transition (their successor states are states of the core
      // alphabet: by-label = set_mode, so nothing is lost by not extending them): the by-label mode setter with a valid
      // and an unknown label, and set_decay_version; each must refuse on an initialised generator and leave no trace,
      // and behave like its core twin otherwise; a version set before must be gone after reset
      static std::set<std::string> aux_done; // once per distinct (reference state, refusal mark): the leaves depend on nothing else
      if (!o.threw && aux_done.insert(m.key() + "|" + n.tag).second) {
        struct Aux { const char * name; int kind; };
        static const Aux AUX[] = {{"set_mode_by_label(valid)", 0}, {"set_mode_by_label(bogus)", 1}, {"set_version(x)", 2}};
        for (const Aux & ax : AUX) {
          Impl J;
          int sh = 0;
          for (int h : n.hist) { apply_impl(J, ops[h], sh); if (ops[h].kind == 8) sh++; }
          apply_impl(J, op, sh);
          M m2 = m;
          bool thr = false;
          std::string what;
          try {
            if (ax.kind == 0) J.g->set_decay_dbd_mode_by_label(bxdecay0::dbd_mode_label(bxdecay0::DBDMODE_1));
            else if (ax.kind == 1) J.g->set_decay_dbd_mode_by_label("no-such-mode");
            else J.g->set_decay_version("x");
          } catch (std::exception & e) { thr = true; what = e.what(); }
          transitions++;
          outcomes.insert(std::string(ax.name) + (thr ? ":throws" : ":ok"));
          bool expect = m.init;
          if (!expect) { if (ax.kind == 0) m2.mode = 1; else if (ax.kind == 1) m2.mode = 0; }
          std::string hx = h2 + " ; " + ax.name;
          auto VA = [&](const std::string & cls, const std::string & text) {
            std::string k = std::string(ax.name) + "@" + m.key() + ":" + cls;
            if (!viol.count(k) && viol.size() < 400) viol[k] = "history [" + hx + "]: " + text;
          };
          if (thr != expect) { VA(expect ? "no-exception" : "exception", std::string("reference machine says ") + (expect ? "throws" : "succeeds") + ", implementation " + (thr ? "throws: " + what : "succeeds")); }
          std::string gd2 = getters_diff(*J.g, thr ? m : m2);
          if (!gd2.empty()) VA("getters", "getters differ from the reference machine: " + gd2);
          if (ax.kind == 2 && J.g->has_decay_version() != (!expect && !thr ? true : false) && !m.init) VA("getters", "has_decay_version after set_decay_version");
          if (m.init && !thr) {
            // the refused-but-accepted change must at least not alter the events: shot vs. fresh instance
            Impl F;
            if (fresh_like(m, F)) {
              Ev a = shoot_probe(*J.g, 777), b = shoot_probe(*F.g, 777);
              if (!same_ev(a, b)) VA("probe", "shot after the call differs from the shot of a fresh instance configured like the initialised state");
            }
          }
          if (ax.kind == 2 && !m.init) {
            J.g->reset();
            std::string dd = defaults_diff(*J.g);
            if (!dd.empty()) VA("defaults", "after set_version ; reset: " + dd);
          }
        }
      }
      if (samples.size() < 4 && n.hist.size() == 3 && (op.kind == 7 || op.kind == 8) && !o.threw) samples.push_back(h2 + " => " + m.key());
      // a refused operation must leave no trace: the reference state is unchanged, but the object has now
      // lived through a failure, so it is explored as a state of its own (hidden state would otherwise be
      // merged away with the conforming twin)
      // ... and the mark is sticky along the path (until destroy+new), because the trace may only show after
      // further successful operations (e.g. a refused gA initialisation followed by a mode change)
      std::string ntag = n.tag;
      // which request was refused and (for initialize, the only operation that does real work before it can
      // refuse) in which state; a refused setter/add_operation shows any trace at once in the getters
      if (o.threw) ntag = op.name + (op.kind == 7 ? "@" + before.key() : std::string());
      if (op.kind == 10) ntag = "";
      std::string nkey = m.key() + "|refused-before:" + ntag;
      if (!seen.count(nkey)) {
        seen[nkey] = (int)n.hist.size() + 1;
        Node nn;
        nn.hist = n.hist;
        nn.hist.push_back((int)oi);
        nn.m = m;
        nn.tag = ntag;
        frontier.push_back(nn);
      }
    }
  }
  FILE * fo = fopen(out.c_str(), "w");
  auto js = [](const std::string & s) {
    std::string o = "\"";
    for (char ch : s) {
      if (ch == '"' || ch == '\\') { o += '\\'; o += ch; }
      else if ((unsigned char)ch < 32) o += ' ';
      else o += ch;
    }
    return o + "\"";
  };
  fprintf(fo, "{\"states\":%zu,\"transitions\":%ld,\"probes\":%ld,\"max_depth\":%ld,\"closed\":%s,\"ops\":%zu,\"outcomes\":%zu,\"samples\":[", seen.size(), transitions, probes, max_depth,
          complete ? "true" : "false", ops.size(), outcomes.size());
  for (size_t k = 0; k < samples.size(); k++) fprintf(fo, "%s%s", k ? "," : "", js(samples[k]).c_str());
  fprintf(fo, "],\"violations\":[");
  bool first = true;
  for (auto & kv : viol) {
    fprintf(fo, "%s{\"key\":%s,\"text\":%s}", first ? "" : ",", js(kv.first).c_str(), js(kv.second).c_str());
    first = false;
  }
  fprintf(fo, "]}\n");
  fclose(fo);
  return 0;
}
