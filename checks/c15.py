"""C15 — malformed input files raise an error; never a crash, hang or garbage load (DESIGN §2 C15)."""
import json, os, re, shutil, subprocess, sys, tempfile
import vlib, gadata
sys.path.insert(0, os.path.join(vlib.VERIF, 'engine'))
import mutate


def run(tier, rep):
    exe = vlib.build_harness('checks/c15.cc', 'asan')
    api = vlib.build_harness('checks/c13api.cc', 'plain')
    d = vlib.scratch('c15')
    base_tmp = '/dev/shm' if os.path.isdir('/dev/shm') and os.access('/dev/shm', os.W_OK) else d
    work = tempfile.mkdtemp(prefix='bxd0-c15-', dir=base_tmp)
    pairs = tier != 'quick'
    items = []   # (kind, path, family, tag)
    env = dict(os.environ)
    env['BXDECAY0_RESOURCE_DIR'] = os.path.join(vlib.REPO, 'resources')
    # ---- seed: a two-event file, as bxdecay0-run writes it
    r = subprocess.run([api, 'background', 'Co60', '0', '0', 'nan', 'nan', '1', '2', 'nan', '0', 'e-', '0', '0', '0', '0'], env=env, stdout=subprocess.PIPE, stderr=subprocess.DEVNULL, text=True, timeout=120)
    seed_d0t = r.stdout.rpartition('#toallevents=')[0]
    if seed_d0t.count('\n') < 6:
        raise SystemExit('HARNESS-ERROR: could not produce the seed event file')
    n = 0
    for tag, t in mutate.mutants(seed_d0t, pairs=False):
        p = os.path.join(work, 'e%d.d0t' % n); n += 1
        open(p, 'w').write(t)
        items.append(('d0t', p, 'event-file', tag))
    if pairs:
        # pairs restricted to the header/count tokens of the first record (the fields that drive loops and allocations)
        head = '\n'.join(seed_d0t.split('\n')[:4]) + '\n'
        rest = '\n'.join(seed_d0t.split('\n')[4:])
        for tag, t in mutate.mutants(head, pairs=True, max_prefix=0):
            p = os.path.join(work, 'e%d.d0t' % n); n += 1
            open(p, 'w').write(t + rest)
            items.append(('d0t', p, 'event-file', 'pair:' + tag))
    # ---- seeds: gA tables
    gseed = os.path.join(work, 'gseed')
    gadata.write_dataset(os.path.join(gseed, 'data/dbd_gA/v1.0/Test/g0'), [[1.0, 2.5, 1.5], [2.0, 0.5], [9.0]], 0.1, 1.1, 1.3, 'Test', 'g0')
    for kind, fname in (('pdf', 'tab_pdf.data'), ('ocdf', 'tab_ocdf.data')):
        text = open(os.path.join(gseed, 'data/dbd_gA/v1.0/Test/g0', fname)).read()
        for tag, t in mutate.mutants(text, pairs=pairs and kind == 'ocdf'):
            md = os.path.join(work, 'g%d' % n); n += 1
            dd = os.path.join(md, 'data/dbd_gA/v1.0/Test/g0')
            os.makedirs(dd)
            open(os.path.join(dd, fname), 'w').write(t)
            items.append((kind, md, 'gA-' + kind, tag))
        # degenerate energy grids: header fields replaced together (single-token replacement cannot produce them): a range
        # too narrow for the number of samples in double precision, denormal and huge ranges - with a maximum energy sum
        # that admits them
        lines_ = text.split('\n')
        hi = [k for k, l in enumerate(lines_) if len(l.split()) == 5 and 'robab' in l.split()[0]]
        qi = [k for k, l in enumerate(lines_) if len(l.split()) == 1 and not l.startswith('#')]
        if hi and qi:
            word, _, _, stp, ns = lines_[hi[0]].split()
            for gi, (emn, emx, nn) in enumerate([('1e16', '10000000000000002', ns), ('1', '1.0000000000000002', ns), ('0', '5e-324', ns), ('0', '1e308', ns), ('1e308', '1.7e308', ns),
                                                 ('1e16', '10000000000000002', '3'), ('0.1', '0.10000000000000002', ns)]):
                t2 = list(lines_)
                t2[hi[0]] = ' '.join([word, emn, emx, stp, nn])
                t2[qi[0]] = '1e309' if gi == 4 else '3e308'
                for qv in ('3e308', '1e17'):
                    t3 = list(t2)
                    t3[qi[0]] = qv
                    md = os.path.join(work, 'g%d' % n); n += 1
                    dd = os.path.join(md, 'data/dbd_gA/v1.0/Test/g0')
                    os.makedirs(dd)
                    open(os.path.join(dd, fname), 'w').write('\n'.join(t3))
                    items.append((kind, md, 'gA-' + kind, 'grid%d(%s,%s,%s;sum %s)' % (gi, emn, emx, nn, qv)))
    # a second p.d.f. seed whose maximum energy sum lies inside the stored grid: the cells above it hold zeros, so that every
    # single-token replacement also visits the region with its own rule (must be zero there)
    # (written by hand in the format of the first seed: the documented encoder cannot write a table with an empty row)
    text2 = ('#isotope=Test\n#dbd_ga.mode=g0\n0.9000\nProbability 1.0000000000000001e-01 1.1000000000000001e+00 5.0000000000000000e-01 3\n'
             '1.0000000e+00 2.5000000e+00 0.0000000e+00 \n2.0000000e+00 0.0000000e+00 \n0.0000000e+00')
    for tag, t in mutate.mutants(text2, pairs=False, max_prefix=0):
        md = os.path.join(work, 'g%d' % n); n += 1
        dd = os.path.join(md, 'data/dbd_gA/v1.0/Test/g0')
        os.makedirs(dd)
        open(os.path.join(dd, 'tab_pdf.data'), 'w').write(t)
        items.append(('pdf', md, 'gA-pdf', 'seed2:' + tag))
    # ---- seeds: catalogue lists (cut to a few lines)
    desc = os.path.join(vlib.REPO, 'resources/description')
    lis = {}
    for f in ('background_isotopes.lis', 'dbd_isotopes.lis', 'dbd_modes.lis'):
        ls = [l for l in open(os.path.join(desc, f)).read().split('\n')]
        keep = [l for l in ls if l.strip() and not l.startswith('#')]
        lis[f] = '# seed\n' + '\n'.join(keep[:4] if f != 'dbd_modes.lis' else keep[:3] + keep[-2:]) + '\n'
    for f in lis:
        for tag, t in mutate.mutants(lis[f], pairs=False):
            md = os.path.join(work, 'l%d' % n); n += 1
            os.makedirs(os.path.join(md, 'description'))
            for g in lis:
                open(os.path.join(md, 'description', g), 'w').write(t if g == f else lis[g])
            items.append(('lis', md, 'list-' + f, tag))
    # ---- argv
    seeds = [['-s', '1', '-n', '2', '-c', 'background', '-N', 'Co60', '-a', '2.5', '-g', 'mute', 'base'],
             ['--seed', '3', '--nb-events', '2', '--decay-category', 'dbd', '--nuclide', 'Mo100', '--level', '0', '--dbd-mode', '4', '--dbd-emin', '0.5', '--dbd-emax', '1.5',
              '--pgop-mdl-particle', 'e-', '--pgop-mdl-rank', '0', '--pgop-mdl-cone-phi', '0', '--pgop-mdl-cone-theta', '90', '--pgop-mdl-cone-aperture', '5', '--basename', 'b']]
    argvs = []
    for s in seeds:
        for k in range(len(s) + 1):
            argvs.append(('cut%d' % k, s[:k]))                      # every option as the last argument
        for i in range(len(s)):
            argvs.append(('del%d' % i, s[:i] + s[i + 1:]))
            for r_ in mutate.ALPHABET + ['-h', '--help', '-n', '--']:
                if r_ == '\n':
                    continue
                argvs.append(('arg%d=%r' % (i, r_), s[:i] + [r_] + s[i + 1:]))
    for opt in ['-g', '-n', '-s', '-N', '-l', '-c', '-m', '-e', '-E', '-a', '-b', '--pgop-mdl-particle', '--pgop-mdl-rank', '--pgop-mdl-cone-phi', '--pgop-mdl-cone-theta', '--pgop-mdl-cone-aperture']:
        argvs.append(('lone:' + opt, [opt]))
        argvs.append(('trailing:' + opt, ['-c', 'background', '-N', 'Co60', opt]))
    for tag, a in argvs:
        p = os.path.join(work, 'a%d.argv' % n); n += 1
        open(p, 'w').write('\n'.join(a) + ('\n' if a else ''))
        items.append(('argv', p, 'argv', tag))
    # ---- run
    lst = os.path.join(work, 'list')
    open(lst, 'w').write('\n'.join('%s %s' % (k, p) for k, p, _, _ in items) + '\n')
    out = os.path.join(work, 'out.jsonl')
    e2 = dict(env)
    e2.pop('BXDECAY0_RESOURCE_DIR', None)
    e2['BXDECAY0_RESOURCE_DIR'] = os.path.join(vlib.REPO, 'resources')
    e2['C15_GA_SEED'] = gseed
    rr = subprocess.run([exe, lst, out], env=e2, stdout=subprocess.PIPE, stderr=subprocess.PIPE, text=True, timeout=3300)
    if rr.returncode != 0:
        shutil.rmtree(work, ignore_errors=True)
        raise SystemExit('HARNESS-ERROR: c15 exited %d %s' % (rr.returncode, rr.stderr[-500:]))
    verdicts = {}
    fam_count = {}
    samples = []
    done = 0
    for ln in open(out):
        x = json.loads(ln)
        kind, path, fam, tag = items[x['i']]
        done += 1
        fam_count[fam] = fam_count.get(fam, 0) + 1
        if 'crashed' in x:
            how = x['crashed']
            san = ''
            sp = path + '.san'
            if os.path.exists(sp):
                san = open(sp, errors='replace').read()
            m = re.search(r'(AddressSanitizer: [\w-]+|runtime error: [^\n]*|Assertion [^\n]*)', san)
            fr = re.search(r'#\d+ 0x[0-9a-f]+ in (\S+) /repo/([\w/.]+):(\d+)', san)
            what = (m.group(1) if m else ('timeout (loops forever?)' if how in ('signal 14',) else how))
            where = ('%s:%s' % (fr.group(2), fr.group(1))) if fr else 'unknown'
            key = '%s:%s@%s' % (fam, re.sub(r'[^A-Za-z0-9_-]+', '_', what)[:50], where)
            rep.violation(key, 'mutant "%s" of the %s seed: %s at %s (%s)\n%s' % (tag, fam, what, where, how, san[:1200]), replay=None)
            verdicts['crash'] = verdicts.get('crash', 0) + 1
            continue
        v = x['r']['verdict']
        verdicts[v] = verdicts.get(v, 0) + 1
        if v in ('garbage', 'unbounded'):
            rep.violation('%s:%s:%s' % (fam, v, re.sub(r'[^A-Za-z0-9_-]+', '_', x['r']['detail'])[:50]), 'mutant "%s" of the %s seed: %s' % (tag, fam, x['r']['detail']))
        if len(samples) < 5 and v == 'exception' and fam not in [s['family'] for s in samples]:
            samples.append({'family': fam, 'mutation': tag, 'outcome': x['r']['detail'][:100]})
    shutil.rmtree(work, ignore_errors=True)
    if done != len(items):
        raise SystemExit('HARNESS-ERROR: %d of %d mutants processed' % (done, len(items)))
    rep.coverage.update({
        'evaluations': len(items), 'distinct_nontrivial': verdicts.get('exception', 0) + verdicts.get('crash', 0), 'mutants_per_family': fam_count, 'verdicts': verdicts,
        'exhaustive': True, 'samples': samples or ['none'],
        'rule': 'seeds: a two-event file as bxdecay0-run writes it, a 3x3 gA p.d.f. table and its encoder-written c.d.f. table, the three catalogue lists cut to a few lines, two '
                'argument vectors; mutants (all of them, no sampling): every byte-prefix truncation, every token replaced by each of %d adversarial strings, every token duplicated, '
                'every line deleted / duplicated / extended%s; argv: every prefix of the vector (each option as last argument), every argument deleted or replaced; each mutant is '
                'loaded in a forked child of the ASan+UBSan+_GLIBCXX_ASSERTIONS build (10 s limit, 512 MB single-allocation cap): outcome must be an exception or a load that '
                'satisfies the loader\'s validity predicate; non-trivial = mutants that made the loader raise an error' % (len(mutate.ALPHABET), '; pairs of replacements on the event header and the c.d.f. table' if pairs else ''),
    })
    rep.assumptions += ['validity predicates: event::is_valid() and at most 64 events; gA: a 6x6 grid of shots yields finite non-negative energies; lists: non-empty names, consistent mode records, every stored identifier inside its enumeration; a gA object whose load was refused must then load the unmutated dataset and sample exactly like a new object']


def replay(path):
    print(open(path).read())
    return 1
