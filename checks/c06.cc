// c06 — complete acceptance grid (DESIGN §2 C06): every (isotope, level -1..17, mode 0..25, window
// variant) request is issued to decay0_generator::initialize and compared with the reference rules:
//  * modes 1..20: the transpiled Fortran GENBBsub with the kernel `bb` stubbed (only the rules run);
//    quadruple beta with level >= 1 is "reject" (README; the Fortran silently coerces the level);
//  * modes 21..24 (gA): isotope in {Se82, Mo100, Cd116, Nd150} and level 0 (synthetic datasets);
//  * mode ids outside 1..24: reject;
//  * window variants: none | inside the range (min<max) | inverted | entirely above the range;
//    a window on a mode that does not support one must have no effect at all at library level
//    (decay0_generator documents "if available for the chosen mode"; the CLI refuses it: C13/C06 driver part).
// Rejected => exception, is_initialized()==false, shoot throws. Accepted => shots satisfy C03/C04.
//
//   c06 --names FILE --out FILE [--shots N] [--jobs N]
#include "dxcore.hpp"
#include <bxdecay0/std_random.h>

static const std::set<int> WINDOW_MODES = {4, 5, 6, 8, 10, 13, 14, 15, 16, 19};
static const std::set<std::string> GA_NUCLIDES = {"Se82", "Mo100", "Cd116", "Nd150"};
static double r64(double x) { return std::round(x * 64.0) / 64.0; }

struct Cell {
  int level, mode, wv;
  bool expect, got;
  std::string what;
};

static std::string jstr(const std::string & s)
{
  std::string o = "\"";
  for (char ch : s) {
    if (ch == '"' || ch == '\\') { o += '\\'; o += ch; }
    else if ((unsigned char)ch < 32) o += ' ';
    else o += ch;
  }
  return o + "\"";
}

struct Attempt {
  bool accepted = false;
  std::string what;
  bool post_ok = true; // rejected: not initialised and shoot throws
  std::string post_why;
  std::vector<Ev> shots;
  double toall = 0, qbb = 0;
};

static Attempt attempt(const std::string & name, int level, int mode, bool has_w, double w1, double w2, int nshots, uint64_t phase)
{
  Attempt a;
  bxdecay0::decay0_generator gen;
  Forced none;
  PortRand r;
  r.s.forced = &none;
  r.s.phase = phase;
  r.horizon = 3000000;
  try {
    gen.set_decay_category(bxdecay0::decay0_generator::DECAY_CATEGORY_DBD);
    gen.set_decay_isotope(name);
    gen.set_decay_dbd_level(level);
    gen.set_decay_dbd_mode((bxdecay0::dbd_mode_type)mode);
    if (has_w) gen.set_decay_dbd_esum_range(w1, w2);
    gen.initialize(r);
    a.accepted = true;
  } catch (HorizonHit &) {
    a.accepted = false;
    a.what = "HORIZON during initialisation";
    a.post_ok = false;
    a.post_why = "initialisation did not finish within 3e6 deviates";
    return a;
  } catch (std::exception & e) {
    a.what = e.what();
  }
  if (!a.accepted) {
    if (gen.is_initialized()) {
      a.post_ok = false;
      a.post_why = "is_initialized() is true after a refused initialisation";
    }
    bool threw = false;
    try {
      bxdecay0::event ev;
      PortRand r2;
      r2.s.forced = &none;
      r2.s.phase = phase + 1;
      gen.shoot(r2, ev);
    } catch (std::exception &) {
      threw = true;
    }
    if (!threw) {
      a.post_ok = false;
      a.post_why = "shoot() yields an event after a refused initialisation";
    }
    return a;
  }
  a.toall = gen.get_to_all_events();
  a.qbb = gen.get_bb_params().Qbb;
  for (int k = 0; k < nshots; k++) {
    PortRand rs;
    rs.s.forced = &none;
    rs.s.phase = phase + 100 + k;
    rs.horizon = HORIZON;
    bxdecay0::event ev;
    Ev e;
    try {
      gen.shoot(rs, ev);
    } catch (HorizonHit &) {
      e.horizon = true;
    } catch (std::exception & x) {
      e.threw = true;
      e.what = x.what();
    }
    for (auto & p : ev.get_particles()) {
      e.code.push_back((int)p.get_code());
      e.t.push_back(p.get_time());
      e.px.push_back(p.get_px());
      e.py.push_back(p.get_py());
      e.pz.push_back(p.get_pz());
    }
    e.evtime = ev.get_time();
    e.label = ev.get_generator();
    e.ndraws = rs.i;
    a.shots.push_back(e);
  }
  return a;
}

static bool same_events(const std::vector<Ev> & a, const std::vector<Ev> & b)
{
  if (a.size() != b.size()) return false;
  for (size_t k = 0; k < a.size(); k++)
    if (a[k].code != b[k].code || a[k].px != b[k].px || a[k].py != b[k].py || a[k].pz != b[k].pz || a[k].t != b[k].t || a[k].ndraws != b[k].ndraws) return false;
  return true;
}

static std::string run_isotope(const std::string & name, int nshots)
{
  std::ostringstream js;
  long cells = 0, accepted = 0, compared_model = 0, shots = 0;
  std::vector<std::string> viol; // "key|text"
  std::string sample;
  auto V = [&](int level, int mode, const char * wv, const std::string & cls, const std::string & text) {
    if (viol.size() < 60) viol.push_back("dbd:" + name + ":l" + std::to_string(level) + ":m" + std::to_string(mode) + ":" + wv + ":" + cls + "|" + text);
  };
  d0ref::fstr chn(16);
  for (int level = -1; level <= 17; level++) {
    for (int mode = 0; mode <= 25; mode++) {
      // ---- reference rules
      bool base_expect = false;
      double e0 = 0;
      if (mode >= 1 && mode <= 20) {
        d0ref::init_blockdata();
        d0ref::mon.reset();
        d0ref::mon.stub_bb = true;
        chn.assign(d0ref::FS(name.c_str()));
        int i2 = 1, lev = level, md = mode, ist = -1, ier = 0;
        Forced none;
        vx::Source s;
        s.forced = &none;
        d0ref::mon.source = ref_source;
        d0ref::mon.ctx = &s;
        try {
          d0ref::f_genbbsub(i2, chn, lev, md, ist, ier);
        } catch (std::exception &) {
          ier = -98;
        }
        compared_model++;
        base_expect = (ier == 0);
        if (mode == 20 && level != 0) base_expect = false; // README: quadruple beta to the ground state only (the Fortran coerces the level)
        if (base_expect) {
          double q = d0ref::sv_genbbsub_qbb, el = d0ref::g.c_enrange.m3 / 1000.0, zd = d0ref::sv_genbbsub_zdbb, ek = d0ref::sv_genbbsub_ek;
          e0 = q - el;
          if (zd < 0) e0 = q - el - 4 * 0.51099906;
          if (mode == 9 || mode == 10) e0 = q - el - ek - 2 * 0.51099906;
          if (mode == 11 || mode == 12) e0 = q - el - 2 * ek;
        }
      } else if (mode >= 21 && mode <= 24) {
        base_expect = GA_NUCLIDES.count(name) && level == 0;
        e0 = 3.0;
      }
      bool capable = WINDOW_MODES.count(mode) > 0;
      // ---- window variants
      double in1 = 0.25, in2 = 0.75, ab1 = 5.0, ab2 = 5.5;
      if (base_expect && capable && e0 > 0) {
        in1 = r64(0.3 * e0);
        in2 = r64(0.8 * e0);
        if (in2 - in1 < 1.0 / 64 || e0 < 0.1) { in1 = 0; in2 = r64(e0) + 1.0 / 64; }
        ab1 = r64(e0) + 0.5;
        ab2 = r64(e0) + 1.0;
      }
      struct WV { const char * tag; bool has; double a, b; };
      // ("below": well ordered but wholly at or below zero - the effective window [max(0,min), min(e0,max)] is empty)
      WV wvs[7] = {{"none", false, 0, 0}, {"inside", true, in1, in2}, {"inverted", true, in2, in1}, {"above", true, ab1, ab2}, {"empty", true, in2, in2}, {"below", true, -1.0, -0.5}, {"below0", true, -1.0, 0.0}};
      Attempt a_none;
      for (int w = 0; w < 7; w++) {
        bool expect = base_expect;
        if (w == 2 || w == 4) expect = false;     // min >= max
        if ((w == 3 || w == 5 || w == 6) && capable) expect = false;    // empty effective window
        Attempt a = attempt(name, level, mode, wvs[w].has, wvs[w].a, wvs[w].b, expect ? nshots : 1, 12345 + PHASE);
        cells++;
        if (w == 0) a_none = a;
        if (a.accepted) accepted++;
        if (a.accepted != expect) {
          char b[512];
          snprintf(b, sizeof b, "%s level %d mode %d window %s [%g,%g]: reference rules say %s, initialize %s%s%s", name.c_str(), level, mode, wvs[w].tag, wvs[w].a, wvs[w].b,
                   expect ? "accept" : "reject", a.accepted ? "succeeds" : "throws", a.accepted ? "" : ": ", a.what.c_str());
          V(level, mode, wvs[w].tag, expect ? "refused" : "accepted", b);
        }
        if (!a.accepted && !a.post_ok) V(level, mode, wvs[w].tag, "post-reject", a.post_why);
        if (a.accepted) {
          Config c;
          c.cat = "dbd";
          c.name = name;
          c.level = level;
          c.mode = mode;
          if (wvs[w].has && capable) { c.e1 = wvs[w].a; c.e2 = wvs[w].b; }
          InvStats st;
          PortSide P;
          P.qbb = a.qbb;
          for (auto & e : a.shots) {
            shots++;
            std::string why = check_c04(c, e, st);
            if (!why.empty()) V(level, mode, wvs[w].tag, "c04", "accepted request yields an invalid event: " + why);
            if (mode <= 20) {
              why = check_c03(c, e, P, st);
              if (!why.empty()) V(level, mode, wvs[w].tag, "c03", "accepted request yields an event off budget/window: " + why);
            } else {
              // gA: exactly two electrons, kinetic sum within the dataset's maximum
              if (e.code.size() != 2 || e.code[0] != 3 || e.code[1] != 3) V(level, mode, wvs[w].tag, "c03", "gA event is not two electrons");
              else if (kin(3, e.px[0], e.py[0], e.pz[0]) + kin(3, e.px[1], e.py[1], e.pz[1]) > 3.0 + 1e-9) V(level, mode, wvs[w].tag, "c03", "gA event above the dataset's maximum energy sum");
            }
          }
          if (!(a.toall >= 1 - 1e-9) && mode <= 20) V(level, mode, wvs[w].tag, "c03", "toallevents < 1");
          if (wvs[w].has && !capable && a_none.accepted) {
            // a window on a mode without window support must be without any effect
            if (!same_events(a.shots, a_none.shots) || a.toall != a_none.toall) V(level, mode, wvs[w].tag, "ignored-window", "window on a mode without window support changes the events or toallevents");
          }
          if (sample.empty() && mode == 4 && w == 1)
            sample = "{\"isotope\":" + jstr(name) + ",\"level\":" + std::to_string(level) + ",\"mode\":4,\"window\":[" + std::to_string(wvs[w].a) + "," + std::to_string(wvs[w].b) + "],\"accepted\":true,\"toallevents\":" + std::to_string(a.toall) + "}";
        }
      }
    }
  }
  js << "{\"isotope\":" << jstr(name) << ",\"cells\":" << cells << ",\"accepted\":" << accepted << ",\"model_cells\":" << compared_model << ",\"shots\":" << shots << ",\"sample\":"
     << (sample.empty() ? "null" : sample) << ",\"violations\":[";
  for (size_t k = 0; k < viol.size(); k++) {
    size_t bar = viol[k].find('|');
    js << (k ? "," : "") << "{\"key\":" << jstr(viol[k].substr(0, bar)) << ",\"text\":" << jstr(viol[k].substr(bar + 1)) << "}";
  }
  js << "]}";
  return js.str();
}

int main(int argc, char ** argv)
{
  std::string names, out;
  int jobs = 16, nshots = 3;
  for (int i = 1; i < argc; i++) {
    std::string a = argv[i];
    auto nxt = [&]() { return std::string(i + 1 < argc ? argv[++i] : ""); };
    if (a == "--names") names = nxt();
    else if (a == "--out") out = nxt();
    else if (a == "--jobs") jobs = atoi(nxt().c_str());
    else if (a == "--shots") nshots = atoi(nxt().c_str());
    else if (a == "--phase") PHASE = strtoull(nxt().c_str(), nullptr, 10);
  }
  setenv("BXDECAY0_RESOURCE_DIR", "/repo/resources", 0);
  if (!getenv("DX_VERBOSE")) {
    FILE * f = freopen("/dev/null", "w", stderr);
    (void)f;
  }
  // label round trip (once)
  std::vector<std::string> nm;
  {
    std::ifstream in(names);
    std::string l;
    while (std::getline(in, l)) nm.push_back(l == "<empty>" ? std::string() : l);
  }
  FILE * fo = fopen(out.c_str(), "w");
  if (!fo) return 2;
  {
    std::set<std::string> labels;
    std::string bad;
    int n = 0;
    for (int m = 1; m <= 24; m++) {
      try {
        std::string lab = bxdecay0::dbd_mode_label((bxdecay0::dbd_mode_type)m);
        n++;
        if (lab.empty()) bad += "mode " + std::to_string(m) + " has an empty label; ";
        if (!labels.insert(lab).second) bad += "label '" + lab + "' used twice; ";
        if ((int)bxdecay0::dbd_mode_from_label(lab) != m) bad += "label '" + lab + "' does not map back to mode " + std::to_string(m) + "; ";
      } catch (std::exception & e) {
        bad += "mode " + std::to_string(m) + ": " + e.what() + "; ";
      }
    }
    if (bxdecay0::dbd_modes().size() != 24) bad += "dbd_modes() has " + std::to_string(bxdecay0::dbd_modes().size()) + " entries; ";
    // strings that are not labels must not resolve to a mode: every proper prefix of every label (incl. the empty
    // string), every label with one character appended / upper-cased / padded, and a request made with such a string
    // through the by-label setter must be refused at initialisation
    {
      std::set<std::string> probes = {"", " ", "foo", "2NUBB", "0NUBB_MN", "2nubb ", " 2nubb"};
      for (auto & lab : labels) {
        for (size_t k = 0; k < lab.size(); k++) probes.insert(lab.substr(0, k));
        probes.insert(lab + "x");
        probes.insert(lab + "_");
      }
      for (auto & pr : probes) {
        if (labels.count(pr)) continue;
        n++;
        bxdecay0::dbd_mode_type m = bxdecay0::dbd_mode_from_label(pr);
        if (m != bxdecay0::DBDMODE_UNDEF) {
          bad += "'" + pr + "' is not a mode label but resolves to mode " + std::to_string((int)m) + "; ";
          if (bad.size() > 600) break;
        }
      }
      for (const char * pr : {"", "0nubb", "2nu", "2nubb_gA", "0nubbM"}) {
        try {
          bxdecay0::decay0_generator g;
          g.set_decay_category(bxdecay0::decay0_generator::DECAY_CATEGORY_DBD);
          g.set_decay_isotope("Mo100");
          g.set_decay_dbd_level(0);
          g.set_decay_dbd_mode_by_label(pr);
          Forced none;
          PortRand r;
          r.s.forced = &none;
          r.horizon = 3000000;
          g.initialize(r);
          bad += std::string("a request made with the non-label '") + pr + "' through set_decay_dbd_mode_by_label is accepted; ";
        } catch (std::exception &) {
        }
      }
    }
    fprintf(fo, "{\"labels\":%d,\"label_problems\":%s}\n", n, jstr(bad).c_str());
  }
  // process pool, one child per isotope
  std::vector<std::pair<pid_t, int>> running;
  std::map<pid_t, std::string> bufs;
  std::map<pid_t, size_t> idx;
  size_t next = 0, done = 0;
  while (done < nm.size()) {
    while (running.size() < (size_t)jobs && next < nm.size()) {
      int pfd[2];
      if (pipe(pfd)) return 2;
      pid_t p = fork();
      if (p == 0) {
        close(pfd[0]);
        alarm(1500);
        std::string r = run_isotope(nm[next], nshots);
        size_t off = 0;
        while (off < r.size()) {
          ssize_t n = write(pfd[1], r.data() + off, r.size() - off);
          if (n <= 0) break;
          off += n;
        }
        _exit(0);
      }
      close(pfd[1]);
      running.push_back({p, pfd[0]});
      idx[p] = next;
      next++;
    }
    bool progressed = false;
    for (size_t k = 0; k < running.size();) {
      pid_t p = running[k].first;
      int fd = running[k].second;
      char b[65536];
      fd_set rs;
      FD_ZERO(&rs);
      FD_SET(fd, &rs);
      struct timeval tv = {0, 0};
      while (select(fd + 1, &rs, nullptr, nullptr, &tv) > 0) {
        ssize_t n = read(fd, b, sizeof b);
        if (n <= 0) break;
        bufs[p].append(b, n);
        FD_ZERO(&rs);
        FD_SET(fd, &rs);
      }
      int status = 0;
      if (waitpid(p, &status, WNOHANG) == 0) { k++; continue; }
      ssize_t n;
      while ((n = read(fd, b, sizeof b)) > 0) bufs[p].append(b, n);
      close(fd);
      if (WIFEXITED(status) && WEXITSTATUS(status) == 0 && !bufs[p].empty()) fprintf(fo, "%s\n", bufs[p].c_str());
      else fprintf(fo, "{\"isotope\":%s,\"crashed\":\"%s %d\"}\n", jstr(nm[idx[p]]).c_str(), WIFSIGNALED(status) ? "signal" : "exit", WIFSIGNALED(status) ? WTERMSIG(status) : WEXITSTATUS(status));
      fflush(fo);
      running.erase(running.begin() + k);
      done++;
      progressed = true;
    }
    if (!progressed) usleep(2000);
  }
  fclose(fo);
  return 0;
}
