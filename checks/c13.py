"""C13 — bxdecay0-run output is reproducible, complete and equal to the library API's (DESIGN §2 C13):
enumerated command lines (accepted and refused) run on the binary built from /repo and compared with an in-process
recomputation through the public API; every kill point and torn write of the event/companion files."""
import itertools, json, os, re, shutil, subprocess, tempfile
import concurrent.futures as cf
import vlib, dxlib, gadata

WINDOW_MODES = {4, 5, 6, 8, 10, 13, 14, 15, 16, 19}
MDL = {'label': 'e-', 'rank': 0, 'phi': 0.0, 'theta': 90.0, 'aperture': 5.0}
MDL_DEFAULT = {'label': 'all', 'rank': -1, 'phi': 0.0, 'theta': 0.0, 'aperture': 0.0}   # --help: the documented defaults
# which --pgop-mdl-* options a line gives: each of them alone must switch the operation on (README/--help describe them as
# independent options with defaults)
MDL_SUBSETS = {True: ('label', 'rank', 'phi', 'theta', 'aperture'), 'particle': ('label',), 'particle+aperture': ('label', 'aperture'), 'rank+particle': ('rank', 'label')}
MDL_FLAG = {'label': '--pgop-mdl-particle', 'rank': '--pgop-mdl-rank', 'phi': '--pgop-mdl-cone-phi', 'theta': '--pgop-mdl-cone-theta', 'aperture': '--pgop-mdl-cone-aperture'}


def mdl_effective(mdl):
    eff = dict(MDL_DEFAULT)
    for k in MDL_SUBSETS[mdl]:
        eff[k] = MDL[k]
    return eff


class Line:
    def __init__(self, category, nuclide, level=None, mode=None, emin=None, emax=None, seed=1, count=1, activity=None, mdl=False, raw=None, tag='', raw_after=None, order=0):
        self.order = order  # 0: README order of the options; 1: reversed; 2: rotated by three options (the options are documented as order-free)
        self.category, self.nuclide, self.level, self.mode = category, nuclide, level, mode
        self.emin, self.emax, self.seed, self.count, self.activity, self.mdl = emin, emax, seed, count, activity, mdl
        self.raw = raw  # extra raw argv (malformed lines)
        self.raw_after = raw_after  # the same, placed after the basename (i.e. after an otherwise complete command line)
        self.tag = tag

    def argv(self, basename):
        a = []
        if self.seed is not None: a += ['-s', str(self.seed)]
        if self.count is not None: a += ['-n', str(self.count)]
        if self.category is not None: a += ['-c', self.category]
        if self.nuclide is not None: a += ['-N', self.nuclide]
        if self.level is not None: a += ['-l', str(self.level)]
        if self.mode is not None: a += ['-m', str(self.mode)]
        if self.emin is not None: a += ['-e', repr(self.emin)]
        if self.emax is not None: a += ['-E', repr(self.emax)]
        if self.activity is not None: a += ['-a', repr(self.activity)]
        if self.mdl:
            for k in MDL_SUBSETS[self.mdl]:
                a += [MDL_FLAG[k], MDL[k] if k == 'label' else (str(MDL[k]) if k == 'rank' else repr(MDL[k]))]
        if self.order:
            pairs = [a[i:i + 2] for i in range(0, len(a), 2)]
            pairs = pairs[::-1] if self.order == 1 else pairs[3:] + pairs[:3]
            a = [x for p in pairs for x in p]
        if self.raw: a += self.raw
        if basename is not None: a += [basename]
        if self.raw_after: a += self.raw_after
        return a

    def key(self):
        s = 'cli:%s:%s' % (self.category, self.nuclide)
        if self.category == 'dbd': s += ':l%s:m%s' % (self.level, self.mode)
        if self.emin is not None or self.emax is not None: s += ':w%s-%s' % (self.emin, self.emax)
        s += ':s%s:n%s' % (self.seed, self.count)
        if self.activity is not None: s += ':a%g' % self.activity
        if self.mdl: s += ':mdl' + ('' if self.mdl is True else '(' + self.mdl + ')')
        if self.order: s += ':order%d' % self.order
        if self.tag: s += ':' + self.tag
        return s

    def cli_rule_refuses(self, pub_bkg, pub_dbd):
        """refusals that are the command line's own (README / --help), independent of the implementation"""
        if self.raw is not None or self.raw_after is not None: return 'malformed command line'
        if self.category not in ('dbd', 'background'): return 'unsupported category'
        if self.category == 'background' and self.nuclide not in pub_bkg: return 'unpublished background nuclide'
        if self.category == 'dbd':
            if self.nuclide not in pub_dbd: return 'unpublished double-beta nuclide'
            if self.mode is None or not (1 <= self.mode <= 24): return 'mode outside 1..24'
            if (self.emin is not None or self.emax is not None) and self.mode not in WINDOW_MODES: return 'energy range on a mode without energy-range support'
            if self.level is not None and self.level < 0: return 'negative level'
        if self.count is not None and self.count < 1: return 'count < 1'
        if self.seed is not None and self.seed < 0: return 'negative seed'
        if self.activity is not None and self.activity <= 0: return 'activity <= 0'
        return None


def lines(tier):
    q = tier == 'quick'
    out = []
    k = 0
    for name, seed, count, act, mdl in itertools.product(['Co60', 'Cs137+Ba137m', 'Te133m', 'K40', 'Bi214+Po214', 'Y90'], [1, 314159], [1, 3], [None, 10.0], [False, True]):
        k += 1
        if q and k % 4 != vlib.SEED % 4: continue
        out.append(Line('background', name, seed=seed, count=count, activity=act, mdl=mdl))
    k = 0
    for name, level, mode, win, seed in itertools.product(['Mo100', 'Cd106', 'Nd150'], [0, 1], [1, 4, 8, 10, 20, 21], ['none', 'both', 'emin', 'emax'], [1, 314159]):
        k += 1
        emin = emax = None
        if win == 'both': emin, emax = 0.5, 1.5
        if win == 'emin': emin = 1.0
        if win == 'emax': emax = 1.5
        if q and k % 3 != vlib.SEED % 3: continue
        out.append(Line('dbd', name, level=level, mode=mode, emin=emin, emax=emax, seed=seed, count=3, activity=(10.0 if k % 5 == 0 else None), mdl=(k % 7 == 0)))
    # each MDL option (or a few of them) alone
    for sub in ('particle', 'particle+aperture', 'rank+particle'):
        out.append(Line('background', 'Co60', seed=5, count=3, mdl=sub))
        out.append(Line('dbd', 'Mo100', level=0, mode=1, seed=5, count=3, mdl=sub))
    # the options in another order (reversed, rotated): the result must not depend on it
    for order in (1, 2):
        out += [Line('dbd', 'Mo100', level=2, mode=1, seed=7, count=3, order=order), Line('dbd', 'Mo100', level=1, mode=8, emin=0.5, emax=1.5, seed=7, count=3, activity=2.0, order=order),
                Line('dbd', 'Cd106', level=0, mode=10, emin=0.25, seed=3, count=2, order=order), Line('background', 'Co60', seed=11, count=3, activity=4.0, mdl=True, order=order),
                Line('dbd', 'Mo100', level=0, mode=1, seed=5, count=2, mdl='rank+particle', order=order)]
    # seeds at the ends of the accepted range (0 is a seed like any other)
    out += [Line('background', 'Co60', seed=0, count=3), Line('dbd', 'Mo100', level=0, mode=4, seed=0, count=2, activity=3.0), Line('background', 'K40', seed=2147483647, count=2)]
    # refused lines
    out += [
        Line('background', 'Xx99', tag='unknown-nuclide'), Line('background', 'Mo100', tag='nuclide-of-other-category'), Line('dbd', 'Co60', level=0, mode=1, tag='nuclide-of-other-category'),
        Line('dbd', 'Mo100', level=0, mode=0, tag='mode0'), Line('dbd', 'Mo100', level=0, mode=25, tag='mode25'), Line('dbd', 'Mo100', level=0, mode=None, tag='no-mode'),
        Line('dbd', 'Mo100', level=0, mode=1, emin=0.5, emax=1.5, tag='window-on-mode-1'), Line('dbd', 'Mo100', level=0, mode=1, emax=1.5, tag='emax-on-mode-1'),
        Line('dbd', 'Mo100', level=0, mode=4, emin=1.5, emax=0.5, tag='inverted-window'), Line('dbd', 'Mo100', level=0, mode=4, emin=3.5, emax=4.0, tag='window-above-Q'),
        Line('dbd', 'Mo100', level=7, mode=1, tag='level-out-of-range'), Line('dbd', 'Mo100', level=1, mode=1, tag='mode-spin-mismatch'), Line('dbd', 'Zr96', level=1, mode=20, tag='4b-excited'),
        # nuclide / mode incompatibilities (the rules of the reference: capture and positron modes need a proton-rich parent, the
        # two-electron modes a neutron-rich one; 2+ modes a 2+ level): refused before any event is written
        Line('dbd', 'Mo100', level=0, mode=9, tag='Kb+-on-2b-'), Line('dbd', 'Mo100', level=0, mode=10, tag='Kb+-on-2b-'), Line('dbd', 'Mo100', level=0, mode=11, tag='2K-on-2b-'),
        Line('dbd', 'Mo100', level=0, mode=12, tag='2K-on-2b-'), Line('dbd', 'Se82', level=0, mode=12, tag='2K-on-2b-'), Line('dbd', 'Nd150', level=0, mode=12, tag='2K-on-2b-'),
        Line('dbd', 'Xe136', level=0, mode=11, tag='2K-on-2b-'), Line('dbd', 'Cd106', level=0, mode=7, tag='2+-mode-on-0+-level'), Line('dbd', 'Mo100', level=0, mode=8, tag='2+-mode-on-0+-level'),
        Line('dbd', 'Mo100', level=0, mode=16, tag='2+-mode-on-0+-level'), Line('dbd', 'Ge76', level=0, mode=20, tag='4b-on-other-nuclide'),
        Line('background', 'Co60', count=0, tag='count0'), Line('background', 'Co60', seed=-1, tag='negative-seed'), Line('background', 'Co60', activity=0.0, tag='activity0'),
        Line('background', 'Co60', activity=-2.0, tag='negative-activity'), Line('alpha', 'Co60', tag='bad-category'), Line(None, 'Co60', tag='no-category'),
        Line('background', None, tag='no-nuclide'), Line('background', 'Co60', raw=['--frobnicate'], tag='unknown-option'), Line('background', 'Co60', raw=['extra-positional'], tag='two-positionals'),
        Line('background', 'Co60', raw=['-n', 'many'], tag='non-numeric-count'),
        Line('background', 'Co60', count=2, raw_after=['--no-such-option'], tag='unknown-option-after-basename'), Line('background', 'Co60', count=2, raw_after=['--no-such-option', '1'], tag='unknown-option-with-value-after-basename'),
        Line('dbd', 'Mo100', level=0, mode=1, count=2, raw_after=['-n'], tag='option-without-value-after-basename'), Line('background', 'Co60', count=2, raw_after=['-s', 'x'], tag='non-numeric-seed-after-basename'),
    ]
    return out


def run_cli(exe, line, workdir, base, env, preload=None, kill_at=None, torn=None, count_file=None, timeout=120):
    e = dict(env)
    if preload:
        e['LD_PRELOAD'] = preload
        if kill_at is not None: e['KP_KILL_AT'] = str(kill_at)
        if torn is not None: e['KP_TORN'] = str(torn)
        if count_file: e['KP_COUNT_FILE'] = count_file
    b = os.path.join(workdir, base)
    for sfx in ('.d0t', '.d0c'):
        try: os.remove(b + sfx)
        except OSError: pass
    r = subprocess.run([exe] + line.argv(b), env=e, stdout=subprocess.PIPE, stderr=subprocess.PIPE, text=True, timeout=timeout, cwd=workdir, errors='replace')
    rd = lambda p: open(p, errors='replace').read() if os.path.exists(p) else None
    return r.returncode, rd(b + '.d0t'), rd(b + '.d0c'), r.stderr


def records(d0t):
    """number of complete records (id line + count + particles + blank line) and whether the text ends cleanly"""
    if d0t is None: return 0, True
    toks = d0t.split('\n')
    n = 0
    i = 0
    while i < len(toks):
        if toks[i].strip() == '':
            i += 1
            continue
        head = toks[i].split()
        if len(head) != 3 or i + 1 >= len(toks): return n, False
        try:
            int(head[0]); float(head[1]); np_ = int(toks[i + 1])
        except ValueError:
            return n, False
        if i + 2 + np_ >= len(toks): return n, False   # needs the terminating blank line as well
        for j in range(np_):
            if len(toks[i + 2 + j].split()) != 5: return n, False
        if toks[i + 2 + np_].strip() != '': return n, False
        n += 1
        i += 3 + np_
    return n, True


def run(tier, rep):
    lib = vlib.build_lib('plain')
    exe = os.path.join(lib, 'bxdecay0-run')
    api = vlib.build_harness('checks/c13api.cc', 'plain')
    d = vlib.scratch('c13')
    kp = os.path.join(d, 'kp.so')
    r = subprocess.run(['gcc', '-shared', '-fPIC', '-O1', '-o', kp, os.path.join(vlib.VERIF, 'engine/killpt/kp.c'), '-ldl'], stdout=subprocess.PIPE, stderr=subprocess.PIPE, text=True)
    if r.returncode != 0:
        raise SystemExit('HARNESS-ERROR: kill-point shim does not build: ' + r.stderr[-400:])
    base_tmp = '/dev/shm' if os.path.isdir('/dev/shm') and os.access('/dev/shm', os.W_OK) else d
    work = tempfile.mkdtemp(prefix='bxd0-c13-', dir=base_tmp)
    gadir = os.path.join(d, 'ga')
    gadata.install_tree(gadir)
    env = dict(os.environ)
    env['BXDECAY0_RESOURCE_DIR'] = os.path.join(vlib.REPO, 'resources')
    env['BXDECAY0_DBD_GA_DATA_DIR'] = gadir
    env.pop('LD_PRELOAD', None)
    pub_bkg, pub_dbd = set(dxlib.BKG69) | set(vlib.bkg_names()), set(dxlib.DBD51) | set(vlib.dbd_names())
    L = lines(tier)
    stats = {'accepted': 0, 'refused': 0, 'kill_runs': 0, 'torn_runs': 0}
    samples = []

    def expected(line):
        a = [api, line.category or 'none', line.nuclide or '', str(line.level if line.level is not None else 0), str(line.mode if line.mode is not None else 0),
             repr(line.emin) if line.emin is not None else 'nan', repr(line.emax) if line.emax is not None else 'nan', str(line.seed if line.seed is not None else 314159),
             str(line.count if line.count is not None else 1), repr(line.activity) if line.activity is not None else 'nan', '1' if line.mdl else '0']
        eff = mdl_effective(line.mdl) if line.mdl else MDL
        a += [eff['label'], str(eff['rank']), repr(eff['phi']), repr(eff['theta']), repr(eff['aperture'])]
        r = subprocess.run(a, env=env, stdout=subprocess.PIPE, stderr=subprocess.DEVNULL, text=True, timeout=300)
        if r.returncode == 3 or r.stdout.startswith('REFUSED'):
            return None, r.stdout.strip()
        if r.returncode != 0:
            raise SystemExit('HARNESS-ERROR: c13api exited %d for %s' % (r.returncode, line.key()))
        body, _, tail = r.stdout.rpartition('#toallevents=')
        return body, tail.strip()

    def one(idx):
        line = L[idx]
        out = []  # (key, text)
        wd = os.path.join(work, 'l%d' % idx)
        os.makedirs(wd, exist_ok=True)
        rule = line.cli_rule_refuses(pub_bkg, pub_dbd)
        exp, info = (None, 'cli rule: ' + rule) if rule else expected(line)
        rc1, t1, c1, err1 = run_cli(exe, line, wd, 'a', env)
        rc2, t2, c2, err2 = run_cli(exe, line, wd, 'b', env)
        k = line.key()
        if exp is None:
            n1, _ = records(t1)
            if n1 > 0 or (c1 and '@status=0' in c1):
                out.append((k + ':not-refused', 'command line %s must be refused (%s) but wrote %d record(s)%s' % (' '.join(line.argv('<base>')), info, n1, ' and the completion marker' if c1 and '@status=0' in c1 else '')))
            return out, 'refused', None
        # accepted
        if rc1 != 0 or t1 is None:
            out.append((k + ':refused', 'command line %s is valid (the API yields events) but the program exits %d: %s' % (' '.join(line.argv('<base>')), rc1, err1.strip()[-200:])))
            return out, 'accepted', None
        if t1 != t2:
            out.append((k + ':not-reproducible', 'two runs of %s give different event files' % ' '.join(line.argv('<base>'))))
        n1, clean = records(t1)
        if n1 != line.count or not clean:
            out.append((k + ':record-count', '%s: event file holds %d complete records (clean=%s), %d requested' % (' '.join(line.argv('<base>')), n1, clean, line.count)))
        ids = [ln.split()[0] for ln in t1.split('\n') if len(ln.split()) == 3]
        if ids != [str(i) for i in range(line.count)]:
            out.append((k + ':ids', '%s: record ids are %s' % (' '.join(line.argv('<base>')), ids[:6])))
        if t1 != exp:
            # locate the first differing record
            a, b = t1.split('\n'), exp.split('\n')
            j = next((i for i in range(min(len(a), len(b))) if a[i] != b[i]), min(len(a), len(b)))
            out.append((k + ':differs-from-api', '%s: event file differs from the library API result at line %d: program <%s> api <%s>' % (' '.join(line.argv('<base>')), j + 1, a[j] if j < len(a) else 'EOF', b[j] if j < len(b) else 'EOF')))
        # companion file
        kv = {}
        for ln in (c1 or '').split('\n'):
            if '=' in ln:
                a, _, b = ln.partition('=')
                kv[a.strip()] = b.strip()
        want = {'library-name': 'BxDecay0', 'decay-category': line.category, 'nuclide': line.nuclide, 'seed': str(line.seed), 'nb-events': str(line.count), '@status': '0'}
        if line.category == 'dbd':
            want['dbd-daughter-level'] = str(line.level if line.level is not None else 0)
            want['dbd-mode'] = str(line.mode)
        if line.mdl:
            eff = mdl_effective(line.mdl)
            want.update({'pgops': 'mdl', 'mdl.particle_label': eff['label'], 'mdl.target_particle_rank': str(eff['rank'])})
        for a, b in want.items():
            if kv.get(a) != b:
                out.append((k + ':companion:' + a, '%s: companion file reports %s=%s, effective setting is %s' % (' '.join(line.argv('<base>')), a, kv.get(a), b)))
        fl = lambda x: float(x) if x is not None else None
        if line.activity is not None and (fl(kv.get('activity-Bq')) != line.activity):
            out.append((k + ':companion:activity', 'companion file reports activity-Bq=%s for -a %s' % (kv.get('activity-Bq'), line.activity)))
        if line.emin is not None or line.emax is not None:
            lo = line.emin if line.emin is not None else 0.0
            hi = line.emax if line.emax is not None else 5000.0
            if fl(kv.get('erange-min-energy-MeV')) != lo or fl(kv.get('erange-max-energy-MeV')) != hi:
                out.append((k + ':companion:erange', '%s: companion file reports the energy range [%s, %s], effective [%s, %s]' % (' '.join(line.argv('<base>')), kv.get('erange-min-energy-MeV'), kv.get('erange-max-energy-MeV'), lo, hi)))
            elif kv.get('erange-toallevents') is None or abs(float(kv['erange-toallevents']) - float(info)) > 1e-9 * abs(float(info)):
                out.append((k + ':companion:toallevents', 'companion file reports erange-toallevents=%s, the API %s' % (kv.get('erange-toallevents'), info)))
        if (c1 or '').strip().split('\n')[-1].strip() != '@status=0':
            out.append((k + ':companion:marker-last', 'the completion marker is not the last line of the companion file'))
        return out, 'accepted', t1

    with cf.ThreadPoolExecutor(16) as ex:
        results = list(ex.map(one, range(len(L))))
    for (viol, kind, _), line in zip(results, L):
        stats[kind] += 1
        for kk, text in viol:
            rep.violation(kk, text)
        if len(samples) < 4 and kind == 'accepted':
            samples.append(' '.join(line.argv('<base>')))
    # ---- a run that is refused after a successful run on the SAME basename (refused by the generator at initialisation,
    #      i.e. after the command line itself was accepted): whatever is left must not claim completeness for what is not there
    rr = 0
    first = Line('background', 'Co60', seed=3, count=5)
    for second in (Line('dbd', 'Mo100', level=9, mode=4, seed=3, count=5, tag='level-out-of-range'), Line('dbd', 'Mo100', level=0, mode=4, emin=2.0, emax=1.0, seed=3, count=5, tag='inverted-window'),
                   Line('dbd', 'Mo100', level=1, mode=1, seed=3, count=5, tag='mode-spin-mismatch'), Line('dbd', 'Zr96', level=1, mode=20, seed=3, count=5, tag='4b-excited')):
        wd = os.path.join(work, 'rr%d' % rr)
        os.makedirs(wd, exist_ok=True)
        rr += 1
        rc1, t1, c1, e1 = run_cli(exe, first, wd, 'same', env)
        if rc1 != 0:
            rep.violation('rerun:first-run-failed', 'the first run %s failed' % ' '.join(first.argv('<base>')))
            continue
        b = os.path.join(wd, 'same')
        r2 = subprocess.run([exe] + second.argv(b), env=env, stdout=subprocess.PIPE, stderr=subprocess.PIPE, text=True, timeout=120, cwd=wd, errors='replace')
        t2 = open(b + '.d0t', errors='replace').read() if os.path.exists(b + '.d0t') else None
        c2 = open(b + '.d0c', errors='replace').read() if os.path.exists(b + '.d0c') else None
        marker = c2 is not None and re.search(r'^@status=0\s*$', c2, re.M) is not None
        n2, clean2 = records(t2)
        m = re.search(r'^nb-events=(\d+)', c2 or '', re.M)
        claimed = int(m.group(1)) if m else None
        if r2.returncode == 0:
            rep.violation('rerun:%s:not-refused' % second.tag, 'second run %s must be refused but exits 0' % ' '.join(second.argv('<base>')))
        if marker and (claimed is None or n2 != claimed or not clean2):
            rep.violation('rerun:%s:stale-marker' % second.tag, 'after a successful run and then the refused run %s on the same basename the companion file carries @status=0 with nb-events=%s while '
                          'the event file holds %d complete record(s)' % (' '.join(second.argv('<base>')), claimed, n2))
        stats['refused'] += 1
    # ---- kill points
    kl = [Line('background', 'Co60', seed=7, count=25 if tier == 'quick' else 300), Line('dbd', 'Mo100', level=0, mode=1, seed=7, count=25 if tier == 'quick' else 120, activity=5.0),
          Line('background', 'Bi214+Po214', seed=11, count=25 if tier == 'quick' else 120, mdl=True)]
    if tier != 'quick':
        kl += [Line('dbd', 'Mo100', level=0, mode=4, emin=0.5, emax=1.5, seed=3, count=60), Line('background', 'Cs137+Ba137m', seed=5, count=200), Line('dbd', 'Cd106', level=0, mode=10, seed=9, count=80),
               Line('dbd', 'Mo100', level=0, mode=21, seed=9, count=80), Line('background', 'Te133m', seed=2, count=150, activity=3.0)]
    writes_total = 0

    def kill_line(li):
        line = kl[li]
        out = []
        wd = os.path.join(work, 'k%d' % li)
        os.makedirs(wd, exist_ok=True)
        cfile = os.path.join(wd, 'count')
        rc, full_t, full_c, err = run_cli(exe, line, wd, 'full', env, preload=kp, count_file=cfile)
        if rc != 0 or full_t is None:
            return [(line.key() + ':kill:baseline', 'baseline run under the shim failed: rc=%d %s' % (rc, err[-200:]))], 0, 0
        nw = len(open(cfile).read().strip().split('\n'))
        nfull, _ = records(full_t)
        runs = 0
        torn = 0

        def probe(kk, tr):
            rc, t, c, err = run_cli(exe, line, wd, 'k%d_%s' % (kk, 'x' if tr is None else str(tr)), env, preload=kp, kill_at=kk, torn=tr)
            marker = c is not None and re.search(r'^@status=0\s*$', c, re.M) is not None
            n, clean = records(t)
            res = []
            if marker and (t != full_t):
                res.append((line.key() + ':kill:marker-without-complete-events', 'killed before write #%d of %d%s: the companion file carries @status=0 but the event file holds %d of %d records%s'
                            % (kk, nw, '' if tr is None else ' (torn after %s bytes)' % tr, n, nfull, '' if clean else ' and ends inside a record')))
            # whatever is there must be a prefix of the complete file
            if t is not None and not full_t.startswith(t):
                res.append((line.key() + ':kill:not-a-prefix', 'killed before write #%d: the event file left behind is not a prefix of the complete file' % kk))
            for sfx in ('.d0t', '.d0c'):
                try: os.remove(os.path.join(wd, 'k%d_%s' % (kk, 'x' if tr is None else str(tr)) + sfx))
                except OSError: pass
            return res
        for kk in range(1, nw + 1):
            out += probe(kk, None)
            runs += 1
            for tr in (1, -1):
                out += probe(kk, tr)
                torn += 1
        return out, runs + torn, nw
    with cf.ThreadPoolExecutor(min(16, len(kl))) as ex:
        kres = list(ex.map(kill_line, range(len(kl))))
    for out, runs, nw in kres:
        stats['kill_runs'] += runs
        writes_total += nw
        for kk, text in out:
            rep.violation(kk, text)
    shutil.rmtree(work, ignore_errors=True)
    rep.coverage.update({
        'evaluations': 2 * len(L) + stats['kill_runs'], 'distinct_nontrivial': stats['accepted'] + writes_total,
        'command_lines': len(L), 'accepted_lines': stats['accepted'], 'refused_lines': stats['refused'], 'kill_point_runs': stats['kill_runs'],
        'write_calls_enumerated': writes_total, 'kill_lines': len(kl), 'exhaustive': True, 'samples': samples or ['none'],
        'rule': 'command lines: product over category x nuclides x level x mode x window {none, both, only -e, only -E} x seed x count x activity x MDL options (sub-sampled in the '
                'quick tier by a fixed stride) plus ~27 lines that must be refused (incl. malformed arguments placed after an otherwise complete command line); each line is run twice on the binary built from /repo (byte-identical event files), its records '
                'are counted and numbered, compared byte for byte with an in-process recomputation through decay0_generator + std::default_random_engine(seed) (activity delays drawn '
                'from the same engine), and the companion file is compared with the effective settings; refused lines must leave no record and no completion marker, also when they re-use the basename of an earlier successful run; each MDL option alone switches the operation on with the documented defaults for the others. Kill points: '
                'for each of %d command lines EVERY write()/writev() to the two files is numbered through an LD_PRELOAD shim and the run is repeated killing the process before write k, '
                'and with write k torn after 1 byte and after half its buffer; invariant: @status=0 present => event file identical to the complete one; what is left is a prefix' % len(kl),
    })
    rep.assumptions += ['process kill only (no power-loss reordering, no ENOSPC)', 'the refusal rules of the command line are taken from README/--help: published nuclide of the category, mode 1..24, '
                        'energy range only on range-capable modes, count >= 1, seed >= 0, activity > 0, known options with a value']


def replay(path):
    print(open(path).read())
    return 1
