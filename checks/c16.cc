// c16 — the numerical kernels meet their mathematical contracts (DESIGN §2 C16). Every oracle is a closed
// form or an independent evaluation; exactness oracles carry a negative control (the first degree that must
// NOT be exact), so that a vacuous oracle is noticed.
//
//   c16 --out FILE [--full]
#include <bxdecay0/common.h>
#include <bxdecay0/dgmlt1.h>
#include <bxdecay0/dgmlt2.h>
#include <bxdecay0/divdif.h>
#include <bxdecay0/fermi.h>
#include <bxdecay0/gauss.h>
#include <bxdecay0/tgold.h>
#include <bxdecay0/tsimpr.h>
#include <bxdecay0/utils.h>
#include "pool.hpp"
#include <cmath>
#include <cstdarg>
#include <complex>
#include <cstdio>
#include <cstring>
#include <map>
#include <string>
#include <vector>

static long g_eval = 0, g_nontrivial = 0;
static std::map<std::string, std::string> g_viol;
static std::vector<std::string> g_samples;
static void V(const std::string & k, const std::string & t)
{
  if (!g_viol.count(k) && g_viol.size() < 200) g_viol[k] = t;
}
static std::string fmt(const char * f, ...)
{
  char b[512];
  va_list ap;
  va_start(ap, f);
  vsnprintf(b, sizeof b, f, ap);
  va_end(ap);
  return b;
}

// ---------------------------------------------------------------- Gauss-Legendre panels
struct Mono { int k; int j; };
static void fsub_mono(int m, const double * u, double * f, double * /*x*/, void * p)
{
  Mono * q = (Mono *)p;
  for (int i = 0; i < m; i++) f[i] = std::pow(u[i], q->k);
}
static long double mono_int(int k, double a, double b) { return (powl((long double)b, k + 1) - powl((long double)a, k + 1)) / (k + 1); }

static void check_dgmlt()
{
  // forward and reversed intervals (the integral changes sign with the orientation)
  const double intervals[][2] = {{0, 1}, {-1, 1}, {0.5, 3.034}, {-2.5, -0.25}, {1e-4, 4.3}, {1, 0}, {1, -1}, {3.034, 0.5}, {-0.25, -2.5}};
  const int NIs[] = {1, 2, 3, 8, 16};
  for (int which = 1; which <= 2; which++)
    for (int NG : {6, 8})
      for (int NI : NIs)
        for (auto & iv : intervals) {
          double worst_exact = 0;
          for (int k = 0; k <= 2 * NG; k++) {
            Mono m{k, 0};
            double x[2] = {0, 0};
            double r = (which == 1) ? bxdecay0::decay0_dgmlt1(fsub_mono, iv[0], iv[1], NI, NG, x, &m) : bxdecay0::decay0_dgmlt2(fsub_mono, iv[0], iv[1], NI, NG, x, &m);
            long double ex = mono_int(k, iv[0], iv[1]);
            // scale: integral of |x|^k over the interval
            long double sc = 0;
            {
              double a = iv[0], b = iv[1];
              if (a > b) std::swap(a, b);
              if (a >= 0 || b <= 0) sc = fabsl(ex);
              else sc = (powl(-a, k + 1) + powl(b, k + 1)) / (k + 1);
            }
            double rel = (double)(fabsl(r - ex) / sc);
            g_eval++;
            if (k <= 2 * NG - 1) {
              g_nontrivial++;
              worst_exact = std::max(worst_exact, rel);
              if (rel > 1e-13)
                V(fmt("dgmlt%d:NG%d:exactness", which, NG), fmt("decay0_dgmlt%d NG=%d NI=%d on [%g,%g]: monomial x^%d integrated with relative error %.3g (> 1e-13)", which, NG, NI, iv[0], iv[1], k, rel));
            } else if (NI == 1) {
              // negative control: degree 2NG must not be exact on a single panel
              if (rel < 1e-13) V(fmt("dgmlt%d:NG%d:control", which, NG), fmt("negative control failed: x^%d exact with a %d-point panel (oracle vacuous?)", k, NG));
            }
          }
          if (g_samples.size() < 2) g_samples.push_back(fmt("dgmlt%d NG=%d NI=%d [%g,%g]: worst relative error on degrees <= %d: %.3g", which, NG, NI, iv[0], iv[1], 2 * NG - 1, worst_exact));
        }
}

// ---------------------------------------------------------------- Simpson
static double f_pow(double x, void * p) { return std::pow(x, *(int *)p); }
static void check_tsimpr()
{
  for (auto iv : {std::pair<double, double>{0, 1}, {-1, 2}, {0.25, 4.25}})
    // requested steps that tile the interval into 4k sub-intervals, and steps that do not (the routine re-derives its
    // own step from the rounded ratio; it refuses ratios whose half is odd): the result is the integral over [a,b] in
    // every accepted case
    for (double n : {4.0, 8.0, 16.0, 100.0, 1000.0, 5.0, 9.0, 17.0, 101.0, 8.5, 4.8, 12.3, 1000.7})
      for (int k = 0; k <= 4; k++) {
        double h = (iv.second - iv.first) / n;
        double r;
        g_eval++;
        size_t nn = (size_t)(n + 0.25);
        bool must_accept = ((nn / 2) % 2 == 0);
        try {
          r = bxdecay0::decay0_tsimpr(f_pow, iv.first, iv.second, h, &k);
        } catch (std::exception & e) {
          if (must_accept) V("tsimpr:exception", fmt("decay0_tsimpr([%g,%g], h=(b-a)/%g) throws: %s", iv.first, iv.second, n, e.what()));
          continue;
        }
        long double ex = mono_int(k, iv.first, iv.second);
        double rel = (double)(fabsl(r - ex) / std::max((long double)1e-300, fabsl(ex)));
        if (k <= 3) {
          g_nontrivial++;
          if (rel > 1e-12) V("tsimpr:exactness", fmt("decay0_tsimpr on [%g,%g] with h=(b-a)/%g: x^%d integrated with relative error %.3g", iv.first, iv.second, n, k, rel));
        } else if (n == 4.0 && rel < 1e-12) V("tsimpr:control", "negative control failed: x^4 exact with 4 Simpson steps");
      }
}

// ---------------------------------------------------------------- adaptive quadrature
struct Fn { int id; double p; double scale = 1.0; };
static double f_smooth_unscaled(double x, void * q);
static double f_smooth(double x, void * q) { return ((Fn *)q)->scale * f_smooth_unscaled(x, q); }
static double f_smooth_unscaled(double x, void * q)
{
  Fn * f = (Fn *)q;
  switch (f->id) {
  case 5: return std::exp(-x) * std::cos(f->p * x); // smooth, oscillating: needs the finer QNG stages
  case 0: return std::exp(-f->p * x);
  case 1: return 1.0 / (1.0 + f->p * x * x);
  case 2: return std::pow(x, 5) - 2 * x * x + f->p + 1;
  case 3: return std::sin(f->p * x) + 2;
  case 4: return std::pow(std::max(0.0, f->p - x), 5) * std::sqrt(x * (x + 1.022)) * (x + 0.511); // 2nubb-like slice, smooth on [0,p]
  }
  return 0;
}
static double F_smooth(int id, double p, double a, double b)
{
  switch (id) {
  case 0: return (std::exp(-p * a) - std::exp(-p * b)) / p;
  case 1: return (std::atan(std::sqrt(p) * b) - std::atan(std::sqrt(p) * a)) / std::sqrt(p);
  case 2: return (std::pow(b, 6) - std::pow(a, 6)) / 6 - 2 * (b * b * b - a * a * a) / 3 + (p + 1) * (b - a);
  case 3: return (std::cos(p * a) - std::cos(p * b)) / p + 2 * (b - a);
  case 5: {
    auto G = [&](double x) { return std::exp(-x) * (p * std::sin(p * x) - std::cos(p * x)) / (1 + p * p); };
    return G(b) - G(a);
  }
  }
  return NAN;
}
static void check_gauss()
{
  for (int id = 0; id <= 5; id++)
    for (double p : {0.5, 1.0, 3.0, 10.0, 12.0})
      for (auto iv : {std::pair<double, double>{0, 1}, {1e-4, 2.5}, {0.2, 0.9}, {0, 4}})
        for (double eps : {1e-3, 1e-4, 1e-6})
         for (double scale : {1.0, 1e-6, 1e-9, 1e-12, 1e3}) {
          Fn f{id, p, scale};
          if (id != 5 && id != 0 && scale != 1.0 && scale != 1e-9) continue;
          double a = iv.first, b = iv.second;
          if (id == 4) { b = std::min(b, p); if (b <= a) continue; }
          double r = bxdecay0::decay0_gauss(f_smooth, a, b, eps, &f);
          double ex;
          if (id == 4) {
            // reference: composite Simpson with 200000 steps in long double
            long double s = 0;
            int n = 200000;
            long double h = ((long double)b - a) / n;
            for (int i = 0; i <= n; i++) {
              long double x = a + i * h;
              long double w = (i == 0 || i == n) ? 1 : (i % 2 ? 4 : 2);
              s += w * f_smooth((double)x, &f);
            }
            ex = (double)(s * h / 3);
          } else ex = scale * F_smooth(id, p, a, b);
          g_eval++;
          g_nontrivial++;
          if (!(std::fabs(r - ex) <= eps * std::fabs(ex) * 1.0000001 + 1e-300))
            V(fmt("gauss:f%d", id), fmt("decay0_gauss(integrand %d, p=%g, [%g,%g], eps=%g) = %.15g, exact %.15g, relative error %.3g", id, p, a, b, eps, r, ex, std::fabs(r - ex) / std::fabs(ex)));
          // reversed limits: minus the forward integral, to the same tolerance; equal limits: 0
          if (id != 4 && scale == 1.0) {
            double rr = bxdecay0::decay0_gauss(f_smooth, b, a, eps, &f);
            g_eval++;
            g_nontrivial++;
            if (!(std::fabs(rr + ex) <= eps * std::fabs(ex) * 1.0000001 + 1e-300))
              V(fmt("gauss:reversed:f%d", id), fmt("decay0_gauss(integrand %d, p=%g, [%g,%g] reversed, eps=%g) = %.15g, exact %.15g", id, p, b, a, eps, rr, -ex));
            double r0 = bxdecay0::decay0_gauss(f_smooth, b, b, eps, &f);
            g_eval++;
            if (r0 != 0.0) V("gauss:empty", fmt("decay0_gauss over the empty interval [%g,%g] = %.15g", b, b, r0));
          }
        }
}

// ---------------------------------------------------------------- golden section
struct Uni { int id; double x0; };
static double f_uni(double x, void * q)
{
  Uni * u = (Uni *)q;
  double d = x - u->x0;
  switch (u->id) {
  case 0: return d * d + 1;                       // parabola (min)
  case 1: return std::fabs(d) + 0.5 * d * d;      // kink (min)
  case 2: return -std::exp(-d * d * 4);           // bell (min)
  case 3: return d < 0 ? d * d * 9 : d * d;       // skewed (min)
  case 4: return 1 - std::cosh(d) ;               // (max at x0)
  case 5: return -(d * d) * (d < 0 ? 1 : 25) + 3; // skewed peak (max)
  }
  return 0;
}
static void check_tgold()
{
  for (int id = 0; id <= 5; id++)
    for (auto iv : {std::pair<double, double>{0, 1}, {0, 4.3}, {-3, 2}})
      for (double frac : {0.02, 0.31, 0.5, 0.77, 0.985})
        for (double eps : {1e-2, 1e-3, 1e-4, 1e-5, 1e-6, 1e-7}) {
          Uni u{id, iv.first + frac * (iv.second - iv.first)};
          double xe, fe;
          int minmax = id <= 3 ? 1 : 2;
          bxdecay0::decay0_tgold(iv.first, 0.0, iv.second, f_uni, eps, minmax, xe, fe, &u);
          g_eval++;
          g_nontrivial++;
          if (!(std::fabs(xe - u.x0) <= eps))
            V(fmt("tgold:f%d:eps%g", id, eps), fmt("decay0_tgold(function %d, [%g,%g], eps=%g, %s): returns x=%.12g, true extremum %.12g (off by %.3g)", id, iv.first, iv.second, eps,
                                                   minmax == 1 ? "min" : "max", xe, u.x0, std::fabs(xe - u.x0)));
          if (fe != f_uni(xe, &u)) V("tgold:fextr", "fextr is not f(xextr)");
          // the alternate entry point (one bracketing step with the caller's interior point b, then the search): b exactly
          // centred (the tie of its two interval-length tests), near either end and in between
          for (double bf : {0.5, 0.25, 0.75, 0.0625, 0.9375, 0.381966011250105, 0.618033988749895}) {
            double b = iv.first + bf * (iv.second - iv.first);
            double xo = 0, fo = 0;
            g_eval++;
            try {
              bxdecay0::decay0_tgold_o(iv.first, b, iv.second, f_uni, eps, minmax, xo, fo, &u);
            } catch (std::logic_error &) {
              continue; // f(x) == f(b) exactly: the documented invalid case
            }
            g_nontrivial++;
            if (!(std::fabs(xo - u.x0) <= eps))
              V(fmt("tgold_o:f%d:eps%g", id, eps), fmt("decay0_tgold_o(function %d, [%g,%g], b=%.12g, eps=%g, %s): returns x=%.12g, true extremum %.12g (off by %.3g)", id, iv.first, iv.second, b, eps,
                                                       minmax == 1 ? "min" : "max", xo, u.x0, std::fabs(xo - u.x0)));
            if (fo != f_uni(xo, &u)) V("tgold_o:fextr", "decay0_tgold_o: fextr is not f(xextr)");
          }
        }
}

// ---------------------------------------------------------------- divided differences
static void check_divdif()
{
  std::vector<std::vector<double>> tables;
  {
    std::vector<double> t;
    for (int i = 0; i < 12; i++) t.push_back(0.1 * i);
    tables.push_back(t);
  }
  tables.push_back({0.0, 0.01, 0.05, 0.2, 0.21, 0.5, 0.9, 1.0, 1.7, 2.5, 2.6, 4.0});
  {
    std::vector<double> t;
    for (int i = 0; i < 12; i++) t.push_back(3.0 - 0.25 * i);
    tables.push_back(t);
  }
  for (size_t ti = 0; ti < tables.size(); ti++) {
    // every table length from the minimum (2 nodes) up: with n nodes a degree-(n-1) interpolation is admissible, the
    // routine clamps the requested degree to min(MM, 10, n-1)
    for (int n = 2; n <= (int)tables[ti].size(); n++) {
    std::vector<double> A(tables[ti].begin(), tables[ti].begin() + n);
    for (int MMreq = 1; MMreq <= 11; MMreq++) {
      int MM = std::min(std::min(MMreq, 10), n - 1);
      if (MMreq > 6 && MMreq < 10) continue;
      for (int deg = 0; deg <= MM + 1; deg++) {
        std::vector<double> F(n);
        auto poly = [&](double x) { double s = 0; for (int d = 0; d <= deg; d++) s += (d + 1) * std::pow(x - 0.3, d) * (d % 2 ? -1 : 1); return s; };
        for (int i = 0; i < n; i++) F[i] = poly(A[i]);
        double lo = std::min(A.front(), A.back()), hi = std::max(A.front(), A.back());
        double worst = 0;
        double tol = MM <= 5 ? 1e-10 : 1e-7; // conditioning of high-degree divided differences on the uneven table
        for (int s = 0; s <= 40; s++) {
          double x = lo + (hi - lo) * s / 40.0;
          double r = bxdecay0::decay0_divdif(F.data(), A.data(), n, x, MMreq);
          double ex = poly(x);
          g_eval++;
          double rel = std::fabs(r - ex) / (1 + std::fabs(ex));
          worst = std::max(worst, rel);
          if (deg <= MM) {
            g_nontrivial++;
            if (rel > tol) V(fmt("divdif:table%zu:n%d:MM%d", ti, n, MMreq), fmt("decay0_divdif(table %zu, first %d nodes, MM=%d) at x=%g: polynomial of degree %d reproduced with error %.3g", ti, n, MMreq, x, deg, rel));
          }
        }
        if (deg == MM + 1 && n > MM + 1 && worst < 1e-10) V(fmt("divdif:control:MM%d", MM), fmt("negative control failed: degree %d reproduced exactly with MM=%d", deg, MM));
      }
    }
    }
  }
}

// ---------------------------------------------------------------- Euler rotation
static void matmul(const double a[3][3], const double b[3][3], double c[3][3])
{
  for (int i = 0; i < 3; i++)
    for (int j = 0; j < 3; j++) {
      c[i][j] = 0;
      for (int k = 0; k < 3; k++) c[i][j] += a[i][k] * b[k][j];
    }
}
static void Rz(double a, double m[3][3])
{
  double c = std::cos(a), s = std::sin(a);
  double t[3][3] = {{c, -s, 0}, {s, c, 0}, {0, 0, 1}};
  memcpy(m, t, sizeof t);
}
static void Ry(double a, double m[3][3])
{
  double c = std::cos(a), s = std::sin(a);
  double t[3][3] = {{c, 0, s}, {0, 1, 0}, {-s, 0, c}};
  memcpy(m, t, sizeof t);
}
static void check_rotation(int n)
{
  bxdecay0::vector3 e[3] = {bxdecay0::make_vector3(1, 0, 0), bxdecay0::make_vector3(0, 1, 0), bxdecay0::make_vector3(0, 0, 1)};
  for (int i = 0; i < n; i++)
    for (int j = 0; j < n; j++)
      for (int k = 0; k < n; k++) {
        // all three angles over full turns: the polar angle too (the library itself passes negative polar angles: cone redirection)
        double phi = -M_PI + 2 * M_PI * i / (n - 1), th = -M_PI + 3 * M_PI * j / (n - 1), psi = -M_PI + 2 * M_PI * k / (n - 1);
        double M[3][3];
        for (int c = 0; c < 3; c++) {
          bxdecay0::vector3 r = bxdecay0::rotate_zyz(e[c], phi, th, psi);
          M[0][c] = r.x; M[1][c] = r.y; M[2][c] = r.z;
        }
        double A[3][3], B[3][3], C[3][3], AB[3][3], ABC[3][3];
        Rz(phi, A); Ry(th, B); Rz(psi, C);
        matmul(A, B, AB); matmul(AB, C, ABC);
        g_eval++;
        g_nontrivial++;
        double dmax = 0, omax = 0;
        for (int a = 0; a < 3; a++)
          for (int b = 0; b < 3; b++) {
            dmax = std::max(dmax, std::fabs(M[a][b] - ABC[a][b]));
            double s = 0;
            for (int c = 0; c < 3; c++) s += M[c][a] * M[c][b];
            omax = std::max(omax, std::fabs(s - (a == b ? 1 : 0)));
          }
        double det = M[0][0] * (M[1][1] * M[2][2] - M[1][2] * M[2][1]) - M[0][1] * (M[1][0] * M[2][2] - M[1][2] * M[2][0]) + M[0][2] * (M[1][0] * M[2][1] - M[1][1] * M[2][0]);
        if (omax > 1e-14) V("rotate_zyz:orthonormal", fmt("rotate_zyz(phi=%g,theta=%g,psi=%g) is not orthonormal (%.3g)", phi, th, psi, omax));
        if (std::fabs(det - 1) > 1e-14) V("rotate_zyz:det", fmt("rotate_zyz(phi=%g,theta=%g,psi=%g) has determinant %.17g", phi, th, psi, det));
        if (dmax > 1e-14) V("rotate_zyz:composition", fmt("rotate_zyz(phi=%g,theta=%g,psi=%g) differs from Rz(phi)Ry(theta)Rz(psi) by %.3g", phi, th, psi, dmax));
        // composition rule on a vector: R(phi,theta,psi) v = Rz(phi)(Ry(theta)(Rz(psi) v))
        bxdecay0::vector3 v = bxdecay0::make_vector3(0.3, -1.2, 0.7);
        bxdecay0::vector3 r1 = bxdecay0::rotate_zyz(v, phi, th, psi);
        bxdecay0::vector3 r2 = bxdecay0::rotate_zyz(bxdecay0::rotate_zyz(bxdecay0::rotate_zyz(v, 0, 0, psi), 0, th, 0), phi, 0, 0);
        if (std::fabs(r1.x - r2.x) + std::fabs(r1.y - r2.y) + std::fabs(r1.z - r2.z) > 1e-14) V("rotate_zyz:chain", "rotate_zyz does not compose as documented");
      }
}

// ---------------------------------------------------------------- Fermi function
typedef std::complex<long double> LC;
static LC lgamma_c(LC z)
{
  // Lanczos g=7, n=9 (independent of GSL)
  static const long double g = 7;
  static const long double c[9] = {0.99999999999980993L, 676.5203681218851L, -1259.1392167224028L, 771.32342877765313L, -176.61502916214059L, 12.507343278686905L, -0.13857109526572012L,
                                   9.9843695780195716e-6L, 1.5056327351493116e-7L};
  if (z.real() < 0.5L) return std::log(LC(M_PIl) / std::sin(LC(M_PIl) * z)) - lgamma_c(LC(1) - z);
  z -= LC(1);
  LC x = c[0];
  for (int i = 1; i < 9; i++) x += c[i] / (z + LC(i));
  LC t = z + LC(g + 0.5L);
  return LC(0.5L * logl(2 * M_PIl)) + (z + LC(0.5L)) * std::log(t) - t + std::log(x);
}
static double fermi_ref(double Z, double E)
{
  // closed form used by Decay0: F = p^(2g-2) exp(pi y) |Gamma(g + i y)|^2, E in MeV
  if (E < 50e-6) E = 50e-6;
  long double alfaz = Z / 137.036L;
  long double w = E / 0.51099906L + 1;
  long double p = sqrtl(w * w - 1);
  long double y = alfaz * w / p;
  long double g = sqrtl(1 - alfaz * alfaz);
  LC lg = lgamma_c(LC(g, y));
  return (double)(powl(p, 2 * g - 2) * expl(M_PIl * y + 2 * lg.real()));
}
static void check_fermi(bool full)
{
  int zstep = full ? 1 : 7;
  for (int Z = -92; Z <= 92; Z += zstep) {
    if (Z == 0) continue;
    int ne = full ? 80 : 30;
    for (int i = 0; i <= ne; i++) {
      double E = 50e-6 * std::pow(12.0 / 50e-6, (double)i / ne);
      double r = bxdecay0::decay0_fermi((double)Z, E);
      double ex = fermi_ref((double)Z, E);
      g_eval++;
      g_nontrivial++;
      if (!(std::fabs(r - ex) <= 2e-9 * std::fabs(ex)))
        V(fmt("fermi:Z%s", Z > 0 ? "pos" : "neg"), fmt("decay0_fermi(Z=%d, E=%.6g MeV) = %.15g, independent closed form %.15g (relative difference %.3g)", Z, E, r, ex, std::fabs(r - ex) / std::fabs(ex)));
    }
  }
  // the other public evaluations of the Fermi function (fermi.h): the same closed form under two more names, the finite-size
  // form F0 (x L0 on request) with R = 1.2 fm A^(1/3) and A from the library's own A(Z) polynomial, the non-relativistic form
  for (int Z = -92; Z <= 92; Z += zstep) {
    if (Z == 0) continue;
    int ne = full ? 40 : 12;
    for (int i = 0; i <= ne; i++) {
      double E = 50e-6 * std::pow(12.0 / 50e-6, (double)i / ne);
      double ex = fermi_ref((double)Z, E);
      g_eval += 5;
      g_nontrivial += 5;
      double r1 = bxdecay0::decay0_fermi_func_orig((double)Z, E), r2 = bxdecay0::decay0_fermi_func_shape_only((double)Z, E);
      if (!(std::fabs(r1 - ex) <= 2e-9 * std::fabs(ex))) V("fermi_func_orig", fmt("decay0_fermi_func_orig(Z=%d, E=%.6g) = %.15g, closed form %.15g", Z, E, r1, ex));
      if (!(std::fabs(r2 - ex) <= 2e-9 * std::fabs(ex))) V("fermi_func_shape_only", fmt("decay0_fermi_func_shape_only(Z=%d, E=%.6g) = %.15g, its closed form p^(2g-2) exp(pi y) |Gamma(g+iy)|^2 = %.15g", Z, E, r2, ex));
      // non-relativistic: t / (1 - exp(-t)), t = 2 pi alpha Z / beta
      {
        long double w = E / 0.51099906L + 1, pp = sqrtl(w * w - 1), t = 2 * M_PIl * (Z / 137.036L) / (pp / w);
        double exn = (double)(t / (1 - expl(-t))), rn = bxdecay0::decay0_fermi_func_nr_approx((double)Z, E);
        if (!(std::fabs(rn - exn) <= 1e-9 * std::fabs(exn))) V("fermi_func_nr_approx", fmt("decay0_fermi_func_nr_approx(Z=%d, E=%.6g) = %.15g, closed form %.15g", Z, E, rn, exn));
      }
      // finite size: F0 = 4 (2 p R)^(2g-2) exp(pi y) |Gamma(g+iy)|^2 / Gamma(2g+1)^2, L0 = (1+g)/2 [1 - aZ (W R - 7 aZ/15) - g aZ R / (2 W)]
      {
        long double aZ = Z / 137.036L, w = E / 0.51099906L + 1, pp = sqrtl(w * w - 1), y = aZ * w / pp, g = sqrtl(1 - aZ * aZ);
        long double A = bxdecay0::decay0_a_from_z(std::fabs((double)Z));
        long double R = 1.2L * cbrtl(A) * 0.51099906L / 197.3269631L;
        LC lg = lgamma_c(LC(g, y));
        long double F0 = 4 * powl(2 * pp * R, 2 * (g - 1)) * expl(M_PIl * y + 2 * lg.real()) / powl(tgammal(2 * g + 1), 2);
        long double L0 = 0.5L * (1 + g) * (1 - aZ * (w * R - 7 * aZ / 15) - 0.5L * g * aZ * R / w);
        double f0 = bxdecay0::decay0_fermi_func((double)Z, E, false), f1 = bxdecay0::decay0_fermi_func((double)Z, E, true);
        const char * zs = Z > 0 ? "pos" : "neg";
        if (!(std::fabs(f0 - (double)F0) <= 1e-8 * std::fabs((double)F0))) V(fmt("fermi_func:Z%s", zs), fmt("decay0_fermi_func(Z=%d, E=%.6g, false) = %.15g, finite-size closed form %.15g", Z, E, f0, (double)F0));
        if (!(std::fabs(f1 - (double)(F0 * L0)) <= 1e-8 * std::fabs((double)(F0 * L0))))
          V(fmt("fermi_func_L0:Z%s", zs), fmt("decay0_fermi_func(Z=%d, E=%.6g, true) = %.15g, finite-size closed form with L0 %.15g", Z, E, f1, (double)(F0 * L0)));
      }
    }
  }
  // below 50 eV the function is documented to be evaluated at 50 eV
  for (double E : {1e-9, 1e-6, 49e-6}) {
    g_eval++;
    if (bxdecay0::decay0_fermi(32., E) != bxdecay0::decay0_fermi(32., 50e-6)) V("fermi:floor", "decay0_fermi below 50 eV is not the 50 eV value");
  }
}

int main(int argc, char ** argv)
{
  std::string out = "/dev/stdout";
  bool full = false;
  for (int i = 1; i < argc; i++) {
    std::string a = argv[i];
    if (a == "--out" && i + 1 < argc) out = argv[++i];
    else if (a == "--full") full = true;
  }
  FILE * f = freopen("/dev/null", "w", stderr);
  (void)f;
  check_dgmlt();
  check_tsimpr();
  check_gauss();
  check_tgold();
  check_divdif();
  check_rotation(full ? 25 : 13);
  check_fermi(full);
  FILE * fo = fopen(out.c_str(), "w");
  fprintf(fo, "{\"evaluations\":%ld,\"nontrivial\":%ld,\"samples\":[", g_eval, g_nontrivial);
  for (size_t k = 0; k < g_samples.size(); k++) fprintf(fo, "%s%s", k ? "," : "", vx::jstr(g_samples[k]).c_str());
  fprintf(fo, "],\"violations\":[");
  bool first = true;
  for (auto & kv : g_viol) {
    fprintf(fo, "%s{\"key\":%s,\"text\":%s}", first ? "" : ",", vx::jstr(kv.first).c_str(), vx::jstr(kv.second).c_str());
    first = false;
  }
  fprintf(fo, "]}\n");
  fclose(fo);
  return 0;
}
