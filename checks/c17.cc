// c17 — the Geant4 action hands over each particle unchanged and validates like the core (DESIGN §2 C17).
// The UNMODIFIED extension sources are compiled against a minimal stand-in for the Geant4 classes
// (engine/g4stub; CLHEP units MeV = 1, second = 1e9 ns) and driven over an enumerated configuration grid.
//
//   c17 --out FILE [--full]
#include "../../repo/extensions/bxdecay0_g4/bxdecay0_g4/primary_generator_action.cc"
#include "../../repo/extensions/bxdecay0_g4/bxdecay0_g4/unique_point_vertex_generator.cc"
#include "../../repo/extensions/bxdecay0_g4/bxdecay0_g4/vertex_generator_interface.cc"
#include "pool.hpp"
#include <G4Event.hh>
#include <map>
#include <set>
#include <sstream>

using bxdecay0_g4::PrimaryGeneratorAction;
typedef PrimaryGeneratorAction::ConfigurationInterface CI;

static const std::set<int> WINDOW_MODES = {4, 5, 6, 8, 10, 13, 14, 15, 16, 19};

struct Cfg {
  std::string category, nuclide;
  int seed = 1, mode = 0, level = 0;
  double emin = -1, emax = -1;
  bool mdl = false;
  std::string mdl_label = "e-";
  double mdl_aperture2 = -1.0; // >= 0: rectangular direction-lock window (aperture 10 deg x this)
  int vertex = 0; // 0 none, 1 unique point, 2 exhausted after the first event
  int nev = 3;    // decays generated
  int gun_n = 0;  // > 0: the user changed the gun's multiplicity (/gun/number n) before the run
  bool apply_explicit = false; // after SetConfiguration the user calls ApplyConfiguration() himself (the /bxdecay0/generator/apply command)
  int prev = -1;  // >= 0: index of a configuration the same action object ran first (then SetConfiguration to this one)
  bool grab = false; // with prev: DestroyConfiguration(), then the configuration edited in place through GrabConfiguration() (only the fields this request needs) + SetConfigHasChanged(true): what the macro commands do
  std::string key() const
  {
    std::ostringstream s;
    s << "g4:" << category << ":" << nuclide << ":s" << seed;
    if (category == "dbd") s << ":m" << mode << ":l" << level;
    if (emin > 0 || emax > 0) s << ":w" << emin << "-" << emax;
    if (mdl) s << ":mdl(" << mdl_label << (mdl_aperture2 > 0 ? ",rect" : (mdl_aperture2 == 0 ? ",rect0" : "")) << ")";
    s << ":v" << vertex;
    if (nev != 3) s << ":n" << nev;
    if (gun_n) s << ":gun" << gun_n;
    if (prev >= 0) s << ":after" << prev << (apply_explicit ? "+apply" : "") << (grab ? "+grab" : "");
    return s.str();
  }
};

struct ExhaustingVertexGenerator : bxdecay0_g4::VertexGeneratorInterface {
  int left = 1;
  bool HasNextVertex() const override { return left > 0; }
  void ShootVertex(G4ThreeVector & v) override
  {
    left--;
    v = G4ThreeVector(-4.0, 5.5, 6.25);
  }
};

// a vertex generator that hands out a different point at every call (a list of points, a random sampler): decay k must
// sit, with all its particles, on the k-th point
struct SequenceVertexGenerator : bxdecay0_g4::VertexGeneratorInterface {
  int calls = 0;
  static G4ThreeVector point(int k) { return G4ThreeVector(1.0 + k, -2.0 * k, 5.0 * k + 0.5); }
  bool HasNextVertex() const override { return true; }
  void ShootVertex(G4ThreeVector & v) override { v = point(calls++); }
};

// the core's answer for the same request (public API only), and its events
struct Core {
  bool refused = false;
  std::string why;
  std::vector<bxdecay0::event> events;
};

static Core core_run(const Cfg & c, int nevents, const std::set<std::string> & bkg, const std::set<std::string> & dbd)
{
  Core k;
  auto refuse = [&](const std::string & w) { k.refused = true; k.why = w; return k; };
  if (c.category != "dbd" && c.category != "background") return refuse("unsupported category");
  if (c.seed < 0) return refuse("negative seed");
  if (c.category == "background" && !bkg.count(c.nuclide)) return refuse("nuclide is not a published background nuclide");
  if (c.category == "dbd") {
    if (!dbd.count(c.nuclide)) return refuse("nuclide is not a published double-beta nuclide");
    if (c.mode < 1 || c.mode > 24) return refuse("mode outside 1..24");
    if (c.level < 0) return refuse("negative level");
    if (c.emin > 0 && c.emax > 0 && c.emin >= c.emax) return refuse("inverted energy range");
  }
  try {
    std::default_random_engine gen((unsigned)c.seed);
    bxdecay0::std_random prng(gen);
    bxdecay0::decay0_generator g;
    g.set_decay_category(c.category == "dbd" ? bxdecay0::decay0_generator::DECAY_CATEGORY_DBD : bxdecay0::decay0_generator::DECAY_CATEGORY_BACKGROUND);
    g.set_decay_isotope(c.nuclide);
    if (c.category == "dbd") {
      g.set_decay_dbd_level(c.level);
      g.set_decay_dbd_mode((bxdecay0::dbd_mode_type)c.mode);
      if (c.emin > 0 || c.emax > 0) g.set_decay_dbd_esum_range(c.emin > 0 ? c.emin : 0.0, c.emax > 0 ? c.emax : 5000.0);
    }
    if (c.mdl) {
      auto op = std::make_shared<bxdecay0::momentum_direction_lock_event_op>();
      bxdecay0::momentum_direction_lock_event_op::config_type mc;
      mc.particle_label = c.mdl_label;
      mc.target_particle_rank = 0;
      mc.cone_phi_degree = 30.0;
      mc.cone_theta_degree = 60.0;
      mc.cone_aperture_degree = 10.0;
      mc.cone_aperture2_degree = c.mdl_aperture2;
      op->set(mc);
      g.add_operation(op);
    }
    g.initialize(prng);
    for (int i = 0; i < nevents; i++) {
      bxdecay0::event ev;
      g.shoot(prng, ev);
      k.events.push_back(ev);
    }
  } catch (std::exception & e) {
    return refuse(std::string("decay0_generator: ") + e.what());
  }
  return k;
}

static CI make_ci(const Cfg & c)
{
  CI ci;
  ci.decay_category = c.category;
  ci.nuclide = c.nuclide;
  ci.seed = c.seed;
  ci.dbd_mode = c.mode;
  ci.dbd_level = c.level;
  ci.dbd_min_energy_MeV = c.emin;
  ci.dbd_max_energy_MeV = c.emax;
  if (c.mdl) {
    ci.use_mdl = true;
    ci.mdl_target_name = c.mdl_label;
    ci.mdl_target_rank = 0;
    ci.mdl_cone_longitude = 30.0;
    ci.mdl_cone_colatitude = 60.0;
    ci.mdl_cone_aperture = 10.0;
    ci.mdl_cone_aperture2 = c.mdl_aperture2;
  }
  return ci;
}

// configurations an action object may have run before it is re-configured (accepted with and without MDL, and refused ones)
static std::vector<Cfg> predecessors()
{
  std::vector<Cfg> v;
  { Cfg c; c.category = "dbd"; c.nuclide = "Se82"; c.seed = 5; c.mode = 1; c.level = 0; c.mdl = true; v.push_back(c); }
  { Cfg c; c.category = "background"; c.nuclide = "Co60"; c.seed = 7; c.mdl = true; c.mdl_label = "gamma"; v.push_back(c); }
  { Cfg c; c.category = "dbd"; c.nuclide = "Mo100"; c.seed = 9; c.mode = 4; c.level = 0; c.emin = 0.5; c.emax = 1.5; v.push_back(c); }
  { Cfg c; c.category = "background"; c.nuclide = "Xx99"; c.seed = 3; v.push_back(c); }
  { Cfg c; c.category = "dbd"; c.nuclide = "Mo100"; c.seed = 3; c.mode = 25; c.level = 0; v.push_back(c); }
  return v;
}

static std::string run_cfg(const Cfg & c, const std::set<std::string> & bkg, const std::set<std::string> & dbd)
{
  const int NEV = c.nev;
  std::vector<std::pair<std::string, std::string>> viol;
  auto V = [&](const std::string & cls, const std::string & text) { if (viol.size() < 6) viol.push_back({c.key() + ":" + cls, text}); };
  Core core = core_run(c, NEV, bkg, dbd);
  CI ci = make_ci(c);
  G4RunManager::GetRunManager()->aborts = 0;
  long nprim = 0, nev_ok = 0;
  bool g4_refused = false;
  std::string g4_why;
  try {
    PrimaryGeneratorAction action(c.prev >= 0 ? make_ci(predecessors()[c.prev]) : ci, 0);
    if (c.prev >= 0) {
      // the same action object first serves another configuration (two events, outcome irrelevant), then is re-configured
      for (int i = 0; i < 2; i++) {
        G4Event ev0;
        try { action.GeneratePrimaries(&ev0); } catch (std::exception &) {}
      }
      G4RunManager::GetRunManager()->aborts = 0;
      if (c.grab) {
        action.DestroyConfiguration();
        auto & gc = action.GrabConfiguration();
        gc.decay_category = ci.decay_category;
        gc.nuclide = ci.nuclide;
        gc.seed = ci.seed;
        if (c.category == "dbd") {
          gc.dbd_mode = ci.dbd_mode;
          gc.dbd_level = ci.dbd_level;
          if (c.emin > 0) gc.dbd_min_energy_MeV = ci.dbd_min_energy_MeV;
          if (c.emax > 0) gc.dbd_max_energy_MeV = ci.dbd_max_energy_MeV;
        }
        if (c.mdl) {
          gc.use_mdl = true;
          gc.mdl_target_name = ci.mdl_target_name;
          gc.mdl_target_rank = ci.mdl_target_rank;
          gc.mdl_cone_longitude = ci.mdl_cone_longitude;
          gc.mdl_cone_colatitude = ci.mdl_cone_colatitude;
          gc.mdl_cone_aperture = ci.mdl_cone_aperture;
          gc.mdl_cone_aperture2 = ci.mdl_cone_aperture2;
        }
        action.SetConfigHasChanged(true);
      } else action.SetConfiguration(ci);
      if (c.apply_explicit) {
        try { action.ApplyConfiguration(); } catch (std::exception &) {}
        G4RunManager::GetRunManager()->aborts = 0;
      }
    }
    if (c.gun_n > 0) action.GetParticleGun()->SetNumberOfParticles(c.gun_n);
    bxdecay0_g4::UniquePointVertexGenerator upv(G4ThreeVector(1.0, 2.0, 3.0));
    ExhaustingVertexGenerator exv;
    SequenceVertexGenerator sqv;
    if (c.vertex == 1) action.SetVertexGenerator(upv);
    if (c.vertex == 2) action.SetVertexGenerator(exv);
    if (c.vertex == 3) action.SetVertexGenerator(sqv);
    if (c.vertex == 4) action.SetVertexGenerator(new bxdecay0_g4::UniquePointVertexGenerator(G4ThreeVector(1.0, 2.0, 3.0))); // (the pointer overload hands the object over to the action)
    for (int i = 0; i < NEV; i++) {
      if (c.vertex == 4 && i == 1) action.SetVertexGenerator((bxdecay0_g4::VertexGeneratorInterface *)nullptr);
      G4Event ev;
      bool threw = false;
      std::string what;
      int aborts0 = G4RunManager::GetRunManager()->aborts;
      try {
        action.GeneratePrimaries(&ev);
      } catch (std::exception & e) {
        threw = true;
        what = e.what();
      }
      bool aborted = G4RunManager::GetRunManager()->aborts > aborts0;
      if (c.vertex == 2 && i >= 1 && !core.refused) {
        // exhausted vertex generator: the run is aborted and nothing is handed over
        if (!(aborted && threw)) V("vertex-exhausted", "vertex generator exhausted but the run is not aborted");
        if (!ev.primaries.empty()) V("vertex-exhausted", "primaries handed over although no vertex is available");
        continue;
      }
      if (threw || aborted) {
        g4_refused = true;
        g4_why = threw ? what : "AbortRun";
        if (!ev.primaries.empty()) V("refused-with-primaries", "the request is refused (" + g4_why + ") but " + std::to_string(ev.primaries.size()) + " primaries were handed over");
        break;
      }
      if (core.refused) {
        V("accepted", "the core refuses this request (" + core.why + ") but the Geant4 action generates " + std::to_string(ev.primaries.size()) + " primaries");
        break;
      }
      // ---- hand-over: one primary per particle, in order
      const auto & parts = core.events[i].get_particles();
      nprim += ev.primaries.size();
      if (ev.primaries.size() != parts.size()) {
        V("count", "event " + std::to_string(i) + ": " + std::to_string(ev.primaries.size()) + " primaries for " + std::to_string(parts.size()) + " BxDecay0 particles");
        continue;
      }
      // vertex 4: the unique-point generator is un-installed after the first decay (SetVertexGenerator(nullptr)): origin from then on
      if (c.vertex == 4 && i == 1 && action.HasVertexGenerator()) V("vertex-uninstall", "HasVertexGenerator() is still true after SetVertexGenerator(nullptr)");
      G4ThreeVector vtx = c.vertex == 4 ? (i == 0 ? G4ThreeVector(1.0, 2.0, 3.0) : G4ThreeVector(0, 0, 0)) : c.vertex == 1 ? G4ThreeVector(1.0, 2.0, 3.0) : (c.vertex == 2 ? G4ThreeVector(-4.0, 5.5, 6.25) : (c.vertex == 3 ? SequenceVertexGenerator::point(i) : G4ThreeVector(0, 0, 0)));
      for (size_t k = 0; k < parts.size(); k++) {
        const auto & p = parts[k];
        const auto & q = ev.primaries[k];
        const char * want = p.is_electron() ? "e-" : p.is_positron() ? "e+" : p.is_gamma() ? "gamma" : p.is_alpha() ? "alpha" : "?";
        std::string ctx = "event " + std::to_string(i) + " particle " + std::to_string(k) + ": ";
        if (!q.def || q.def->GetParticleName() != want) V("species", ctx + "primary is '" + (q.def ? q.def->GetParticleName() : std::string("null")) + "', BxDecay0 particle is '" + want + "'");
        double px = q.momentum_direction.x() * q.momentum, py = q.momentum_direction.y() * q.momentum, pz = q.momentum_direction.z() * q.momentum;
        double tol = 1e-12 * (std::fabs(p.get_px()) + std::fabs(p.get_py()) + std::fabs(p.get_pz())) + 1e-300;
        if (std::fabs(px - p.get_px() * 1.0) > tol || std::fabs(py - p.get_py()) > tol || std::fabs(pz - p.get_pz()) > tol) {
          std::ostringstream s;
          s.precision(15);
          s << ctx << "momentum (" << px << "," << py << "," << pz << ") MeV, BxDecay0 (" << p.get_px() << "," << p.get_py() << "," << p.get_pz() << ") MeV";
          V("momentum", s.str());
        }
        double tw = p.get_time() * 1.0e9; // seconds expressed in Geant4's internal unit (ns)
        if (std::fabs(q.time - tw) > 1e-12 * std::fabs(tw) + 1e-300) {
          std::ostringstream s;
          s.precision(15);
          s << ctx << "time " << q.time << " (internal unit = ns), BxDecay0 time " << p.get_time() << " s";
          V("time", s.str());
        }
        if (!(q.position == vtx)) V("vertex", ctx + "position is not the vertex supplied by the vertex generator (origin if none)");
        if (q.number != 1) V("multiplicity", ctx + "gun multiplicity is not 1");
      }
      nev_ok++;
    }
  } catch (std::exception & e) {
    g4_refused = true;
    g4_why = e.what();
  }
  if (!core.refused && g4_refused) V("refused", "the core accepts this request but the Geant4 action refuses it: " + g4_why);
  std::ostringstream js;
  js << "{\"key\":" << vx::jstr(c.key()) << ",\"core_refused\":" << (core.refused ? "true" : "false") << ",\"g4_refused\":" << (g4_refused ? "true" : "false") << ",\"primaries\":" << nprim
     << ",\"events\":" << nev_ok << ",\"violations\":[";
  for (size_t k = 0; k < viol.size(); k++) js << (k ? "," : "") << "{\"key\":" << vx::jstr(viol[k].first) << ",\"text\":" << vx::jstr(viol[k].second) << "}";
  js << "]}";
  return js.str();
}

int main(int argc, char ** argv)
{
  std::string out = "/dev/stdout";
  bool full = false;
  for (int i = 1; i < argc; i++) {
    std::string a = argv[i];
    if (a == "--out" && i + 1 < argc) out = argv[++i];
    else if (a == "--full") full = true;
  }
  setenv("BXDECAY0_RESOURCE_DIR", "/repo/resources", 0);
  FILE * ferr = freopen("/dev/null", "w", stderr);
  (void)ferr;
  // published names (the README/list-file sets, which C05 ties together), fixed here
  std::set<std::string> bkg, dbd;
  {
    std::istringstream b("Ac228 Am241 Ar39 Ar42 As79+Se79m Bi207+Pb207m Bi208 Bi210 Bi212+Po212 Bi214+Po214 C14 Ca48+Sc48 Cd113 Co60 Cs136 Cs137+Ba137m Eu147 Eu152 Eu154 Gd146 Hf182 I126 I133 I134 I135 K40 K42 "
                         "Kr81 Kr85 Mn54 Na22 P32 Pa231 Pa234m Pb210 Pb211 Pb212 Pb214 Po210 Po218 Ra226 Ra228 Rb87 Rh106 Rn222 Sb125 Sb126 Sb133 Sr90 Ta180m-B- Ta180m-EC Ta182 Te133 Te133m Te134 Th230 Th234 "
                         "Tl207 Tl208 U234 U238 Xe129m Xe131m Xe133 Xe135 Y88 Y90 Zn65 Zr96+Nb96");
    std::istringstream d("Ca40 Ca46 Ca48 Ni58 Zn64 Zn70 Ge76 Se74 Se82 Sr84 Zr94 Zr96 Mo92 Mo100 Ru96 Ru104 Cd106 Cd108 Cd114 Cd116 Sn112 Sn122 Sn124 Te120 Te128 Te130 Xe136 Ce136 Ce138 Ce142 Nd148 Nd150 Dy156 "
                         "Dy158 W180 W186 Os184 Os192 Pt190 Pt198 Bi214 Pb214 Po218 Rn222 Sm144 Sm154 Er162 Er164 Er170 Yb168 Yb176");
    std::string t;
    while (b >> t) bkg.insert(t);
    while (d >> t) dbd.insert(t);
  }
  std::vector<Cfg> cfgs;
  std::vector<std::string> bnames = {"Co60", "Cs137+Ba137m", "Na22", "Bi214+Po214", "Am241", "K40", "Y90", "Bi207+Pb207m", "Tl208", "Pa234m"};
  std::vector<std::string> dnames = {"Mo100", "Cd106", "Nd150", "Zr96", "Xe136", "Se82", "Ca48", "Te130", "Ge76", "Cd116"};
  // names of the other category, unknown names, and names the plumbing accepts by prefix but nobody publishes
  std::vector<std::string> bad_for_bkg = {"Mo100", "Xx99", "Co6", "Ge76", "co60", "Po214", "Co60+extra", "Bi214"};
  std::vector<std::string> bad_for_dbd = {"Co60", "Xx99", "Mo10", "K40", "mo100", "Mo100+extra", "Bi214+Po214"};
  std::vector<int> seeds = {-1, 1, 314159};
  if (!full) seeds = {-1, 314159};
  for (const char * cat : {"background", "dbd", "", "alpha"}) {
    bool isb = std::string(cat) == "background", isd = std::string(cat) == "dbd";
    std::vector<std::string> names = isb ? bnames : dnames;
    for (auto & n : (isb ? bad_for_bkg : bad_for_dbd)) names.push_back(n);
    if (!isb && !isd) names = {"Co60", "Mo100"};
    for (auto & n : names)
      for (int seed : seeds)
        for (int vertex : {0, 1, 2}) {
          if (isd) {
            for (int mode : {0, 1, 4, 9, 10, 20, 21, 25, -3})
              for (int level : {-1, 0, 1, 99}) {
                for (int w = 0; w < 5; w++) {
                  if (w && !WINDOW_MODES.count(mode)) continue;
                  if (!full && (vertex == 2) && (mode != 1)) continue;
                  Cfg c;
                  c.category = cat; c.nuclide = n; c.seed = seed; c.mode = mode; c.level = level; c.vertex = vertex;
                  if (w == 1) { c.emin = 0.5; c.emax = 1.5; }
                  if (w == 2) { c.emin = 1.5; c.emax = 0.5; }
                  if (w == 3) { c.emin = 1.0; }   // one-sided ranges: the other bound keeps its default
                  if (w == 4) { c.emax = 1.5; }
                  cfgs.push_back(c);
                }
              }
          } else {
            for (int m = 0; m < 4; m++) {
              Cfg c;
              c.category = cat; c.nuclide = n; c.seed = seed; c.vertex = vertex;
              c.mdl = m > 0;
              if (m == 2) { c.mdl_aperture2 = 40.0; c.mdl_label = "gamma"; } // rectangular window with unequal half-angles
              if (m == 3) { c.mdl_aperture2 = 0.0; c.mdl_label = "gamma"; }  // rectangular window with a null second half-angle (what the mdlr command stores when its last parameter is omitted): the core refuses it
              cfgs.push_back(c);
            }
          }
        }
  }
  // longer runs (rare branches: e.g. the zero-energy photon of Kr81, conversion cascades) with and without a vertex
  // generator that moves from decay to decay
  for (const char * n : {"Kr81", "Co60", "Bi207+Pb207m", "Bi214+Po214"})
    for (int seed : {1, 314159})
      for (int vertex : {0, 3}) {
        if (!full && seed == 1 && std::string(n) != "Kr81") continue;
        Cfg c;
        c.category = "background"; c.nuclide = n; c.seed = seed; c.vertex = vertex; c.nev = full ? 1000 : 200;
        cfgs.push_back(c);
      }
  for (const char * n : {"Co60", "Cs137+Ba137m"})
    for (int seed : {1, 314159}) {
      Cfg c;
      c.category = "background"; c.nuclide = n; c.seed = seed; c.vertex = 4; c.nev = 4;
      cfgs.push_back(c);
    }
  for (const char * n : {"Mo100", "Cd106"})
    for (int vertex : {3}) {
      Cfg c;
      c.category = "dbd"; c.nuclide = n; c.seed = 7; c.mode = (std::string(n) == "Cd106" ? 9 : 1); c.level = (std::string(n) == "Mo100" ? 2 : 0); c.vertex = vertex; c.nev = 50;
      cfgs.push_back(c);
    }
  // the user touching the gun (/gun/number n) and re-configuration of one action object: on a sub-grid of accepted and
  // refused requests
  {
    std::vector<Cfg> base;
    for (const Cfg & c : cfgs)
      if (c.seed > 0 && c.vertex != 2 && (c.category == "background" || (c.category == "dbd" && (c.mode == 1 || c.mode == 4 || c.mode == 25) && c.level == 0 && !(c.emin > c.emax)))
          && (c.nuclide == "Co60" || c.nuclide == "Na22" || c.nuclide == "Xx99" || c.nuclide == "Mo100" || c.nuclide == "Cd106" || c.nuclide == "Zr96" || (full && c.seed == 1)))
        base.push_back(c);
    size_t npre = predecessors().size();
    for (const Cfg & c : base) {
      for (int n : {2, 3}) {
        if (n == 3 && !full) continue;
        Cfg g = c;
        g.gun_n = n;
        cfgs.push_back(g);
      }
      for (size_t p = 0; p < npre; p++)
        for (int ap = 0; ap < 2; ap++) {
          Cfg g = c;
          g.prev = (int)p;
          g.apply_explicit = ap != 0;
          cfgs.push_back(g);
          if (ap == 0) {
            g.grab = true;
            cfgs.push_back(g);
          }
        }
    }
  }
  FILE * fo = fopen(out.c_str(), "w");
  vx::run_pool(cfgs.size(), 16, 300, [&](size_t i) { return run_cfg(cfgs[i], bkg, dbd); }, [&](size_t, const std::string & r) { fprintf(fo, "%s\n", r.c_str()); },
               [&](size_t i, const std::string & how) { fprintf(fo, "{\"key\":%s,\"crashed\":%s}\n", vx::jstr(cfgs[i].key()).c_str(), vx::jstr(how).c_str()); });
  fclose(fo);
  return 0;
}
