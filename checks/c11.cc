// c11 — stored events read back unchanged; the reader delivers exactly the asked window (DESIGN §2 C11).
//  part 1 (round trip): enumerated event contents written exactly as bxdecay0-run writes records
//          ("<id> " + event::store(STORE_EVENT_TIME) + "\n"), read back with event_reader, compared to 15 digits.
//  part 2 (window, explicit-state): every stream of N events, every split over 1..3 files (empty files included),
//          every (start, max) in 0..N+1, every has_next/load call pattern; reference model = a list slice.
//
//   c11 --dir SCRATCH --out FILE --nmax N
#include <bxdecay0/event.h>
#include <bxdecay0/event_reader.h>
#include <bxdecay0/particle.h>
#include <bxdecay0/bb_utils.h>
#include "pool.hpp"
#include "sanhook.hpp"
#include <algorithm>
#include <csignal>
#include <fcntl.h>
#include <unistd.h>
#include <cmath>
#include <cstdio>
#include <cstring>
#include <fstream>
#include <functional>
#include <limits>
#include <map>
#include <set>
#include <sstream>
#include <string>
#include <vector>

using bxdecay0::event;
using bxdecay0::event_reader;
using bxdecay0::particle;

static void write_record(std::ostream & out, int id, const event & ev)
{
  out << id << ' ';
  ev.store(out, event::STORE_EVENT_TIME);
  out << '\n';
}

static bool eq15(double a, double b)
{
  if (a == b) return true;
  char x[64], y[64];
  snprintf(x, sizeof x, "%.15g", a);
  snprintf(y, sizeof y, "%.15g", b);
  return strcmp(x, y) == 0;
}

static std::string ev_diff(const event & a, const event & b)
{
  if (a.get_generator() != b.get_generator()) return "label '" + a.get_generator() + "' vs '" + b.get_generator() + "'";
  if (!eq15(a.get_time(), b.get_time())) return "event time";
  if (a.get_particles().size() != b.get_particles().size()) return "particle count";
  for (size_t k = 0; k < a.get_particles().size(); k++) {
    const particle & p = a.get_particles()[k];
    const particle & q = b.get_particles()[k];
    if (p.get_code() != q.get_code()) return "species of particle " + std::to_string(k);
    if (!eq15(p.get_time(), q.get_time())) return "time of particle " + std::to_string(k);
    if (!eq15(p.get_px(), q.get_px()) || !eq15(p.get_py(), q.get_py()) || !eq15(p.get_pz(), q.get_pz())) return "momentum of particle " + std::to_string(k);
  }
  return "";
}

struct Result {
  long states = 0, transitions = 0, runs = 0, roundtrip_events = 0;
  std::map<std::string, std::string> viol;
  std::vector<std::string> samples;
  void V(const std::string & key, const std::string & text)
  {
    if (!viol.count(key) && viol.size() < 200) viol[key] = text;
  }
};

// ---------------------------------------------------------------- part 1
static void round_trip(const std::string & dir, Result & R, bool thorough)
{
  const double VALS[] = {0.0, 0.1, -0.1, 1.0 / 3.0, 1.23456789012345e-13, 9.99999999999999e+2, -7.25e-5, 2.2250738585072014e-308, 1.0e300};
  const double TIMES[] = {0.0, 0.1, 1.0 / 3.0, 1.23456789012345e-13, 9.99999999999999e+2, 2.2250738585072014e-308, 4.5e17};
  const int NV = sizeof VALS / sizeof VALS[0], NT = sizeof TIMES / sizeof TIMES[0];
  // every species of the particle-code enumeration (the generators emit four of them; files may hold all six)
  const bxdecay0::particle_code CODES[] = {bxdecay0::GAMMA, bxdecay0::POSITRON, bxdecay0::ELECTRON, bxdecay0::ALPHA, bxdecay0::NEUTRON, bxdecay0::PROTON};
  const int NC = sizeof CODES / sizeof CODES[0];
  const char * LABELS[] = {"Co60", "Bi214+Po214", "Ta180m-B-"};
  std::vector<event> evs;
  auto mk = [&](int n, int s, int lab, double evt) {
    event e;
    e.set_generator(LABELS[lab % 3]);
    e.set_time(evt);
    for (int k = 0; k < n; k++) {
      particle p;
      p.set_code(CODES[(s + k) % NC]);
      p.set_time(TIMES[(s / 4 + k) % NT]);
      p.set_momentum(VALS[(s + 2 * k) % NV], VALS[(s / NV + 3 * k + 1) % NV], VALS[(s / (NV * NV) + 5 * k + 2) % NV]);
      e.add_particle(p);
    }
    return e;
  };
  // single-particle events: the full product code x time x px x py x pz
  for (int c = 0; c < NC; c++)
    for (int t = 0; t < NT; t++)
      for (int x = 0; x < NV; x++)
        for (int y = 0; y < NV; y++)
          for (int z = 0; z < NV; z++) {
            if (!thorough && ((x + y + z) % 3 != 0)) continue;
            event e;
            e.set_generator(LABELS[(c + t + x) % 3]);
            e.set_time(TIMES[(t + x) % NT]);
            particle p;
            p.set_code(CODES[c]);
            p.set_time(TIMES[t]);
            p.set_momentum(VALS[x], VALS[y], VALS[z]);
            e.add_particle(p);
            evs.push_back(e);
          }
  // labels: every name the library publishes (the generators label their events with them) and synthetic labels of every
  // length 1..40, each on a one-particle and on a zero-particle event
  {
    std::vector<std::string> labs;
    for (auto & n : bxdecay0::background_isotopes()) labs.push_back(n);
    for (auto & n : bxdecay0::dbd_isotopes()) labs.push_back(n);
    for (int len = 1; len <= 40; len++) labs.push_back(std::string("Lb+-m_0123456789abcdefghijklmnopqrstuvwxyzABC").substr(0, len));
    for (auto & l : labs)
      for (int n = 0; n < 2; n++) {
        event e = mk(n, 5, 0, 0.25);
        e.set_generator(l);
        evs.push_back(e);
      }
  }
  // 0, 2, 3 particle events: structured sweep
  for (int n : {0, 2, 3})
    for (int s = 0; s < NV * NV * NV; s += (thorough ? 1 : 7))
      for (int lab = 0; lab < 3; lab++) evs.push_back(mk(n, s, lab, TIMES[s % NT]));
  for (int variant = 0; variant < 2; variant++) {
  // variant 0: the stream is prepared as bxdecay0-run prepares it (precision 15); variant 1: a stream left at its
  // defaults, so that the 15 digits must come from event::store itself (alternating zero-particle records first)
  std::string fn = dir + "/roundtrip" + std::to_string(variant) + ".d0t";
  {
    std::ofstream out(fn);
    if (variant == 0) out.precision(15);
    if (variant == 1) {
      // zero-particle records with many-digit event times come first: nothing but event::store can set the precision
      std::vector<event> head;
      for (int t = 0; t < NT; t++) {
        event e;
        e.set_generator(LABELS[t % 3]);
        e.set_time(TIMES[t] * 1.000000123456789);
        head.push_back(e);
      }
      evs.insert(evs.begin(), head.begin(), head.end());
    }
    for (size_t k = 0; k < evs.size(); k++) write_record(out, (int)k, evs[k]);
  }
  event_reader::config_type cfg;
  cfg.event_files.push_back(fn);
  try {
    event_reader rd(cfg);
    size_t k = 0;
    while (rd.has_next_event()) {
      event got;
      rd.load_next_event(got);
      if (k >= evs.size()) {
        R.V("roundtrip:extra", "reader delivers more events than were written");
        break;
      }
      std::string d = ev_diff(evs[k], got);
      if (!d.empty()) {
        std::ostringstream os;
        os.precision(17);
        os << "event #" << k << " read back differs: " << d << " (written: ";
        evs[k].store(os, event::STORE_EVENT_TIME);
        os << ")";
        R.V("roundtrip:" + d.substr(0, d.find(" of")), os.str());
      }
      k++;
      R.roundtrip_events++;
    }
    if (k != evs.size()) R.V("roundtrip:count", "reader delivers " + std::to_string(k) + " of " + std::to_string(evs.size()) + " written events");
  } catch (std::exception & e) {
    R.V("roundtrip:exception", std::string("reading back the written file threw after ") + std::to_string(R.roundtrip_events) + " events: " + e.what());
  }
  }
}

// a crash inside the reader (stack overflow on an endless re-open, a wild index) must end up as a violation naming the
// scenario, not as a dead harness
static char g_where[512];
static char g_crash_path[512];
static void on_fatal(int sig)
{
  int fd = open(g_crash_path, O_WRONLY | O_CREAT | O_TRUNC, 0644);
  if (fd >= 0) {
    char b[64];
    int n = snprintf(b, sizeof b, "signal %d\n", sig);
    ssize_t w = write(fd, b, n);
    w = write(fd, g_where, strlen(g_where));
    (void)w;
    close(fd);
  }
  _exit(77);
}

// ---------------------------------------------------------------- part 2
// shape 0: 1..3 particles; shape 1, 2: 0..3 particles ((k + shape - 1) % 4: with every split enumerated, a zero-particle record is
// the first, an inner and the last record of a file, and the last one of the stream); labels grow up to 13 characters
static int g_shape = 0;
static event stream_event(int k)
{
  event e;
  e.set_generator(g_shape == 0 ? "Ev" + std::to_string(k) : "Ev" + std::to_string(k) + std::string("+Ba137m-long").substr(0, 3 * ((k + g_shape) % 4) + 1));
  e.set_time(0.5 * k);
  int np = g_shape == 0 ? k % 3 + 1 : (k + g_shape - 1) % 4;
  for (int j = 0; j < np; j++) {
    particle p;
    p.set_code(j % 2 ? bxdecay0::GAMMA : bxdecay0::ELECTRON);
    p.set_time(0.25 * j);
    p.set_momentum(1.0 + k, -0.5 * j, 0.125);
    e.add_particle(p);
  }
  return e;
}

static void window_model(const std::string & dir, int nmax, Result & R)
{
  std::set<std::string> outcomes;
  for (int N = 0; N <= nmax; N++) {
    // all splits of N events over f files
    std::vector<std::vector<int>> splits;
    splits.push_back({N});
    for (int a = 0; a <= N; a++) splits.push_back({a, N - a});
    for (int a = 0; a <= N; a++)
      for (int b = 0; a + b <= N; b++) splits.push_back({a, b, N - a - b});
    for (size_t si = 0; si < splits.size(); si++) {
      std::vector<std::string> files;
      int id = 0;
      std::string stag;
      for (size_t f = 0; f < splits[si].size(); f++) {
        std::string fn = dir + "/w" + std::to_string(g_shape) + "_" + std::to_string(N) + "_" + std::to_string(si) + "_" + std::to_string(f) + ".d0t";
        std::ofstream out(fn);
        out.precision(15);
        for (int k = 0; k < splits[si][f]; k++) {
          // (shape 2: every record carries the identifier 0 - identifiers are not part of the event; files made of several runs
          //  repeat them)
          write_record(out, g_shape == 2 ? 0 : id, stream_event(id));
          id++;
        }
        // an empty file is either zero bytes or only white space
        if (splits[si][f] == 0 && (si % 2)) out << "\n  \n";
        files.push_back(fn);
        stag += (f ? "+" : "") + std::to_string(splits[si][f]);
      }
      for (int start = 0; start <= N + 1; start++)
        for (int maxi = 0; maxi <= N + 3; maxi++) {
          // "no limit" given as the largest int (start + max then exceeds the int range): to the end of the stream
          int max = maxi <= N + 1 ? maxi : (maxi == N + 2 ? std::numeric_limits<int>::max() : std::numeric_limits<int>::max() - 1);
          // expected slice
          std::vector<int> expected;
          for (int k = start; k < N && (max == 0 || (long long)k < (long long)start + max); k++) expected.push_back(k);
          R.states++;
          // call patterns: number of has_next calls before each load, in {0,1,2,3}; 3 calls after exhaustion
          int nl = (int)expected.size();
          long npat = 1;
          for (int k = 0; k < nl; k++) npat *= 4;
          for (long pat = 0; pat < npat; pat++) {
            std::string where = (g_shape ? "records of 0..3 particles (shape " + std::to_string(g_shape) + "), " : std::string()) + "N=" + std::to_string(N) + " files=" + stag + " start=" + std::to_string(start) + " max=" + std::to_string(max);
            std::string key = "window:" + std::string(g_shape ? "shape" + std::to_string(g_shape) + ":" : "") + "N" + std::to_string(N) + ":files" + stag + ":start" + std::to_string(start) + ":max" + std::to_string(max);
            R.runs++;
            snprintf(g_where, sizeof g_where, "%s call pattern %ld", where.c_str(), pat);
            try {
              event_reader::config_type cfg;
              cfg.event_files = files;
              cfg.start_event = start;
              cfg.max_nb_events = max;
              event_reader rd(cfg);
              long p = pat;
              event shared_e = stream_event(N + 3); // starts out holding something else
              int delivered = 0;
              bool bad = false;
              std::string trace;
              for (int k = 0; k <= nl && !bad; k++) {
                int nh = (k < nl) ? (int)(p % 4) : 3; // 0 = load without asking first (the model says an event is due)
                p /= 4;
                bool expect_h = (k < nl);
                for (int h = 0; h < nh && !bad; h++) {
                  bool got = rd.has_next_event();
                  R.transitions++;
                  trace += got ? "h+" : "h-";
                  outcomes.insert(got ? "h+" : "h-");
                  if (got != expect_h) {
                    R.V(key + ":has_next", where + " calls " + trace + ": has_next_event() is " + (got ? "true" : "false") + " with " + std::to_string(delivered) + " of "
                                               + std::to_string(nl) + " window events delivered");
                    bad = true;
                    // when it announces an event, loading it must succeed
                    if (got) {
                      try {
                        event e;
                        rd.load_next_event(e);
                        R.V(key + ":extra", where + ": an event beyond the window is delivered: '" + e.get_generator() + "'");
                      } catch (std::exception & x) {
                        R.V(key + ":announced-load-throws", where + " calls " + trace + "l: an event was announced but load_next_event throws: " + x.what());
                      }
                    }
                  }
                }
                if (bad || k == nl) break;
                // the caller's event object: a new one per load, or (every second call pattern) one object handed to
                // every load of the run - what it held before must not show
                event fresh_e;
                event & e = (pat % 2) ? shared_e : fresh_e;
                rd.load_next_event(e);
                R.transitions++;
                trace += "l";
                outcomes.insert("l");
                std::string d = ev_diff(stream_event(expected[k]), e);
                if (!d.empty()) {
                  R.V(key + ":wrong-event", where + " calls " + trace + ": load #" + std::to_string(k) + " delivers '" + e.get_generator() + "', expected '" + stream_event(expected[k]).get_generator() + "' (" + d + ")");
                  bad = true;
                }
                delivered++;
                if (rd.get_loaded_event_counter() != delivered) {
                  R.V(key + ":counter", where + ": get_loaded_event_counter()=" + std::to_string(rd.get_loaded_event_counter()) + " after " + std::to_string(delivered) + " loads");
                  bad = true;
                }
              }
              // past the window: the reader reports itself terminated and one more load delivers nothing (consumers that loop on
              // is_terminated(), or on a count, instead of has_next_event())
              if (!bad) {
                R.transitions += 2;
                if (!rd.is_terminated()) R.V(key + ":not-terminated", where + " calls " + trace + ": every window event is delivered and has_next_event() is false, but is_terminated() is false");
                try {
                  event extra;
                  rd.load_next_event(extra);
                  R.V(key + ":extra-load", where + " calls " + trace + "l: one more load_next_event() past the window delivers '" + extra.get_generator() + "'");
                } catch (std::exception &) {
                }
              }
              if (R.samples.size() < 4 && N == nmax && nl >= 2 && pat == npat / 2) R.samples.push_back(where + " calls " + trace);
            } catch (std::exception & x) {
              R.V(key + ":exception", where + ": unexpected exception: " + x.what());
            }
          }
        }
    }
  }
  R.samples.push_back("distinct call outcomes: " + std::to_string(outcomes.size()));
}

int main(int argc, char ** argv)
{
  std::string dir = ".", out = "/dev/stdout";
  int nmax = 4;
  bool thorough = false;
  for (int i = 1; i < argc; i++) {
    std::string a = argv[i];
    auto nxt = [&]() { return std::string(i + 1 < argc ? argv[++i] : ""); };
    if (a == "--dir") dir = nxt();
    else if (a == "--out") out = nxt();
    else if (a == "--nmax") nmax = atoi(nxt().c_str());
    else if (a == "--thorough") thorough = true;
  }
  FILE * f = freopen("/dev/null", "w", stderr);
  (void)f;
  std::clog.rdbuf(nullptr);
  snprintf(g_crash_path, sizeof g_crash_path, "%s.crash", out.c_str());
  unlink(g_crash_path);
  snprintf(g_where, sizeof g_where, "round trip");
  {
    // the handler must run on its own stack: the typical crash here is a stack overflow
    static char altstack[1 << 16];
    stack_t ss;
    ss.ss_sp = altstack;
    ss.ss_size = sizeof altstack;
    ss.ss_flags = 0;
    sigaltstack(&ss, nullptr);
    struct sigaction sa;
    memset(&sa, 0, sizeof sa);
    sa.sa_handler = on_fatal;
    sa.sa_flags = SA_ONSTACK;
    for (int sg : {SIGSEGV, SIGABRT, SIGBUS, SIGFPE, SIGILL}) sigaction(sg, &sa, nullptr);
  }
  Result R;
  round_trip(dir, R, thorough);
  for (g_shape = 0; g_shape < 3; g_shape++) window_model(dir, g_shape == 0 ? nmax : std::min(nmax, 4), R);
  FILE * fo = fopen(out.c_str(), "w");
  fprintf(fo, "{\"states\":%ld,\"transitions\":%ld,\"runs\":%ld,\"roundtrip_events\":%ld,\"samples\":[", R.states, R.transitions, R.runs, R.roundtrip_events);
  for (size_t k = 0; k < R.samples.size(); k++) fprintf(fo, "%s%s", k ? "," : "", vx::jstr(R.samples[k]).c_str());
  fprintf(fo, "],\"violations\":[");
  bool first = true;
  for (auto & kv : R.viol) {
    fprintf(fo, "%s{\"key\":%s,\"text\":%s}", first ? "" : ",", vx::jstr(kv.first).c_str(), vx::jstr(kv.second).c_str());
    first = false;
  }
  fprintf(fo, "]}\n");
  fclose(fo);
  return 0;
}
