"""C16 — the numerical kernels meet their mathematical contracts (DESIGN §2 C16)."""
import os, subprocess, json
import vlib


def run(tier, rep):
    exe = vlib.build_harness('checks/c16.cc', 'plain')
    d = vlib.scratch('c16')
    out = os.path.join(d, 'out.json')
    r = subprocess.run([exe, '--out', out] + (['--full'] if tier != 'quick' else []), timeout=1800, stdout=subprocess.PIPE, stderr=subprocess.PIPE, text=True)
    if r.returncode != 0:
        raise SystemExit('HARNESS-ERROR: c16 exited %d %s' % (r.returncode, r.stderr[-500:]))
    x = json.load(open(out))
    for v in x['violations']:
        rep.violation(v['key'], v['text'])
    rep.coverage.update({
        'evaluations': x['evaluations'], 'distinct_nontrivial': x['nontrivial'], 'exhaustive': True, 'samples': x['samples'] or ['none'],
        'rule': 'dgmlt1/2: NG in {6,8} x NI in {1,2,3,8,16} x 5 intervals x every monomial up to degree 2NG-1 exact to 1e-13 (exactness for all polynomials follows by '
                'linearity; degree 2NG on one panel must NOT be exact); tsimpr: monomials <= 3 exact, x^4 not; gauss: 5 integrand families x parameters x '
                'intervals x eps in {1e-3,1e-4,1e-6} against closed forms; tgold: 6 unimodal families x intervals x extremum positions x eps 1e-2..1e-7; divdif: '
                'polynomials of degree <= MM on uniform / non-uniform / descending tables, degree MM+1 must not be exact; rotate_zyz: angle grid, orthonormality, '
                'det=+1, equality with independently built Rz(phi)Ry(theta)Rz(psi), chain rule; fermi: Z in -92..92, E 50 eV..12 MeV against the closed form with an '
                'independent Lanczos complex log-gamma in long double; non-trivial = evaluations that are not negative controls',
    })
    rep.assumptions += ['fermi reference: F = p^(2g-2) exp(pi y)|Gamma(g+iy)|^2 with alpha=1/137.036, m_e=0.51099906 MeV (the constants of the Decay0 reference)']


def replay(path):
    print(open(path).read())
    return 1
