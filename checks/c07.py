"""C07 — an event depends only on configuration and deviates, never on history or reuse (DESIGN §2 C07)."""
import os, subprocess
import dxlib, vlib, gadata


def run(tier, rep):
    exe = vlib.build_harness('checks/c07.cc', 'plain')
    d = vlib.scratch('c07')
    gadir = os.path.join(d, 'ga')
    gadata.install_tree(gadir)
    q = tier == 'quick'
    dB = 3 if q else 4
    lines = ['%d bkg %s' % (dB, n) for n in dxlib.bkg_all()]
    # double-beta: cascades with angular correlations (pointer/index code), chains, windows, quadruple beta, gA
    dbd = [(3, 'Mo100 2 1'), (3, 'Ge76 2 1'), (3, 'Nd150 2 1'), (3, 'Mo100 0 1'), (3, 'Bi214 0 1'), (3, 'Pb214 0 1'), (3, 'Po218 0 1'), (3, 'Rn222 0 1'),
           (3, 'Zr96 0 20'), (2, 'Xe136 0 20'), (3, 'Cd106 0 9'), (3, 'Cd106 0 11'), (3, 'Mo100 0 21'), (2, 'Mo100 0 4 0.5 1.5'), (2, 'Mo100 1 8'), (2, 'Cd106 0 10 0.25 0.75'),
           (2, 'Se82 0 5'), (2, 'Nd150 0 15'), (2, 'Mo100 0 18'), (2, 'Xe136 0 19'), (2, 'Ca48 0 13')]
    lines += ['%d bkg Co60 0 0 -1 -1 MDL' % dB, '%d bkg Cs137+Ba137m 0 0 -1 -1 MDL' % dB, '3 dbd Mo100 0 1 -1 -1 MDL']
    for dep, c in dbd:
        lines.append('%d dbd %s' % (dep if q else dep + 1, c))
    if not q:
        for n in dxlib.dbd_all():
            lines.append('2 dbd %s 0 1' % n if n not in ('Ca40',) else '2 dbd %s 0 11' % n)
    cfg = os.path.join(d, 'cfg')
    open(cfg, 'w').write('\n'.join(lines) + '\n')
    out = os.path.join(d, 'out.jsonl')
    env = dict(os.environ)
    env['BXDECAY0_DBD_GA_DATA_DIR'] = gadir
    r = subprocess.run([exe, '--cfgfile', cfg, '--out', out, '--long', '10000' if q else '1000000'], env=env, timeout=3400,
                       stdout=subprocess.PIPE, stderr=subprocess.PIPE, text=True)
    if r.returncode != 0:
        raise SystemExit('HARNESS-ERROR: c07 exited %d %s' % (r.returncode, r.stderr[-500:]))
    res = vlib.read_jsonl(out)
    if len(res) != len(lines):
        raise SystemExit('HARNESS-ERROR: c07 produced %d records for %d configurations' % (len(res), len(lines)))
    hist = probes = longs = sibs = 0
    nontrivial = 0
    samples = []
    for x in res:
        if 'crashed' in x:
            rep.violation(x['key'] + ':crash', 'history exploration of %s died: %s' % (x['key'], x['crashed']))
            continue
        if 'error' in x:
            rep.violation(x['key'] + ':setup', '%s: %s' % (x['key'], x['error']))
            continue
        hist += x['histories']; probes += x['probes']; longs += x['long_shots']; sibs += x.get('predecessor_first', 0)
        if x['canon_particles'] >= 2:
            nontrivial += x['histories']
        if len(samples) < 5:
            samples.append({'config': x['key'], 'history': x['sample']})
        for v in x['violations']:
            rep.violation(v['key'], v['text'])
    rep.coverage.update({
        'evaluations': hist, 'distinct_nontrivial': nontrivial, 'probe_shots_compared': probes, 'long_history_shots': longs, 'predecessor_first_histories': sibs,
        'configurations': len(res), 'exhaustive': True, 'samples': samples,
        'rule': 'for each configuration every sequence up to the stated depth (%d for the %d background names, 2-4 for double-beta configurations) over 11 operations '
                '(shot into fresh / reused / pre-filled events of exact capacity 1,2,3,4,8; reset+re-initialise; another instance built, shot and destroyed; another '
                'instance kept alive; the instance destroyed and rebuilt), plus two predecessor-first histories per configuration in fresh processes (a sibling configuration - same '
                'mode, other nuclide - initialised and shot before this one is built; kept alive / destroyed), then 9 probe shots (3 recorded streams into fresh events, one into the reused and each '
                'pre-filled event) compared bit for bit with the canonical history; working parameters compared after re-initialisation; one long history of N shots; '
                'non-trivial = history on a configuration whose probe events hold >= 2 particles' % (dB, len(dxlib.bkg_all())),
    })
    rep.assumptions += ['equality is bit-for-bit on particle codes, times, momenta, event time, label and deviates consumed',
                        'the long history is one deterministic history per configuration (N=1e4 quick, 1e6 thorough), stated as such']


def replay(path):
    print(open(path).read())
    return 1
