"""C07 — an event depends only on configuration and deviates, never on history or reuse (DESIGN §2 C07)."""
import os, subprocess
import dxlib, vlib, gadata


def run(tier, rep):
    exe = vlib.build_harness('checks/c07.cc', 'plain')
    d = vlib.scratch('c07')
    gadir = os.path.join(d, 'ga')
    gadata.install_tree(gadir)
    q = tier == 'quick'
    dB = 3 if q else 4
    lines = ['%d bkg %s' % (dB, n) for n in dxlib.bkg_all()]
    # double-beta: cascades with angular correlations (pointer/index code), chains, windows, quadruple beta, gA
    dbd = [(3, 'Mo100 2 1'), (3, 'Ge76 2 1'), (3, 'Nd150 2 1'), (3, 'Mo100 0 1'), (3, 'Bi214 0 1'), (3, 'Pb214 0 1'), (3, 'Po218 0 1'), (3, 'Rn222 0 1'),
           (3, 'Zr96 0 20'), (2, 'Xe136 0 20'), (3, 'Cd106 0 9'), (3, 'Cd106 0 11'), (3, 'Mo100 0 21'), (2, 'Mo100 0 4 0.5 1.5'), (2, 'Mo100 1 8'), (2, 'Cd106 0 10 0.25 0.75'),
           (2, 'Se82 0 5'), (2, 'Nd150 0 15'), (2, 'Mo100 0 18'), (2, 'Xe136 0 19'), (2, 'Ca48 0 13')]
    lines += ['%d bkg Co60 0 0 -1 -1 MDL' % dB, '%d bkg Cs137+Ba137m 0 0 -1 -1 MDL' % dB, '3 dbd Mo100 0 1 -1 -1 MDL']
    for dep, c in dbd:
        lines.append('%d dbd %s' % (dep if q else dep + 1, c))
    if not q:
        for n in dxlib.dbd_all():
            lines.append('2 dbd %s 0 0' % n)  # mode 0 = the first mode of {1,11,9,12,10,3} the nuclide accepts
    cfg = os.path.join(d, 'cfg')
    open(cfg, 'w').write('\n'.join(lines) + '\n')
    out = os.path.join(d, 'out.jsonl')
    env = dict(os.environ)
    env['BXDECAY0_DBD_GA_DATA_DIR'] = gadir
    r = subprocess.run([exe, '--cfgfile', cfg, '--out', out, '--long', '10000' if q else '1000000'], env=env, timeout=3400,
                       stdout=subprocess.PIPE, stderr=subprocess.PIPE, text=True)
    if r.returncode != 0:
        raise SystemExit('HARNESS-ERROR: c07 exited %d %s' % (r.returncode, r.stderr[-500:]))
    res = vlib.read_jsonl(out)
    if len(res) != len(lines):
        raise SystemExit('HARNESS-ERROR: c07 produced %d records for %d configurations' % (len(res), len(lines)))
    hist = probes = longs = sibs = 0
    nontrivial = 0
    samples = []
    for x in res:
        if 'crashed' in x:
            rep.violation(x['key'] + ':crash', 'history exploration of %s died: %s' % (x['key'], x['crashed']))
            continue
        if 'error' in x:
            rep.violation(x['key'] + ':setup', '%s: %s' % (x['key'], x['error']))
            continue
        hist += x['histories']; probes += x['probes']; longs += x['long_shots']; sibs += x.get('predecessor_first', 0)
        if x['canon_particles'] >= 2:
            nontrivial += x['histories']
        if len(samples) < 5:
            samples.append({'config': x['key'], 'history': x['sample']})
        for v in x['violations']:
            rep.violation(v['key'], v['text'])
    rep.coverage.update({
        'evaluations': hist, 'distinct_nontrivial': nontrivial, 'probe_shots_compared': probes, 'long_history_shots': longs, 'predecessor_first_histories': sibs,
        'configurations': len(res), 'exhaustive': True, 'samples': samples,
        'rule': 'for each configuration every sequence up to the stated depth (%d for the %d background names, 2-4 for double-beta configurations) over 11 operations '
                '(shot into fresh / reused / pre-filled events of exact capacity 1,2,3,4,8; reset+re-initialise; another instance built, shot and destroyed; another '
                'instance kept alive; the instance destroyed and rebuilt), plus two predecessor-first histories per configuration in fresh processes (a sibling configuration - same '
                'mode, other nuclide - initialised and shot before this one is built; kept alive / destroyed), then 9 probe shots (3 recorded streams into fresh events, one into the reused and each '
                'pre-filled event) compared bit for bit with the canonical history; working parameters compared after re-initialisation; one long history of N shots; '
                'non-trivial = history on a configuration whose probe events hold >= 2 particles' % (dB, len(dxlib.bkg_all())),
    })
    collisions(tier, rep)
    rep.assumptions += ['equality is bit-for-bit on particle codes, times, momenta, event time, label and deviates consumed',
                        'the long history is one deterministic history per configuration (N=1e4 quick, 1e6 thorough), stated as such']


def collisions(tier, rep):
    """Collision histories: a per-thread cache keyed on part of a helper's arguments only misbehaves when two DIFFERENT decay
    schemes are run back to back and consecutive helper calls agree in the remembered argument and differ in a forgotten one.
    The reference model logs every call of the beta samplers (unit, Q, Z, shape coefficients) on every execution of its
    layer-A exploration; all ordered pairs of calls that agree in Q and differ elsewhere are turned into histories: the
    predecessor's recorded execution (its colliding call last) is shot on its own working set before EVERY port shot of the
    successor, which is explored around its recorded execution (colliding call first) and compared with the history-free model."""
    names = dxlib.bkg_all()
    res, d = dxlib.run_dx('plain', ['bkg %s' % n for n in names], 'c07calls', 'A', 'ref', deadline=300, extra=['--calls'])
    groups = {}
    ncalls = 0
    for r in res:
        if 'crashed' in r or not r.get('ref_available'):
            continue
        for c in r.get('calls', []):
            ncalls += 1
            groups.setdefault((c['unit'], repr(c['args'][0])), []).append((r['config']['name'], c))

    def ftxt(f):
        return ','.join('%s:%.17g' % (k, v) for k, v in sorted(f.items(), key=lambda kv: int(kv[0]))) or '-'
    lines = []
    seen = set()
    for (unit, q), lst in sorted(groups.items()):
        for pn, pc in lst:
            for sn, sc in lst:
                if pc['args'] == sc['args'] or pc['last'] is None or sc['first'] is None:
                    continue
                key = (sn, tuple(sc['args']), pn, tuple(pc['args']))
                if key in seen:
                    continue
                seen.add(key)
                lines.append('bkg %s 0 0 -1 -1 HIST bkg %s %s START %s' % (sn, pn, ftxt(pc['last']), ftxt(sc['first'])))
    if tier == 'quick':
        lines = [l for i, l in enumerate(lines) if i % 2 == vlib.SEED % 2]
    # double-beta siblings: the same mode on another nuclide is initialised and shot on its own working set before every
    # port shot (state frozen by, or left behind by, the first user of a mode shows at the rejection thresholds, where a
    # plain comparison of a few probe events is blind); edge coverage of the successor against the history-free model
    ring = ['Mo100', 'Nd150', 'Se82', 'Cd106', 'Ru96', 'Zr96', 'Xe136', 'Ca48']
    sib = []
    for m in range(1, 21):
        for i, a in enumerate(ring):
            b = ring[(i + 1) % len(ring)]
            if tier == 'quick' and (i + m) % 2:
                continue
            sib.append('dbd %s 0 %d -1 -1 HIST dbd %s:0:%d -' % (a, m, b, m))
    nsib = 0
    if sib:
        res3, d3 = dxlib.run_dx('plain', sib, 'c07sib', 'A', 'ref', deadline=300)
        # mode 18 depends on the caller's nuclear matrix elements: its sibling histories again with the two other sets (with the
        # first one a nuclear radius frozen by the first user of the mode only rescales the spectrum)
        sib18 = ['dbd %s 0 18 -1 -1 HIST dbd %s:0:18 -' % (a, ring[(i + 1) % len(ring)]) for i, a in enumerate(ring)]
        for k in (1, 2):
            rk, dk = dxlib.run_dx('plain', sib18, 'c07sib', 'A', 'ref', deadline=300, extra=['--nme-set', str(k)])
            for r in rk:
                r['key'] = r['key'] + ':nme%d' % (k + 1)
            res3 += rk
        for r in res3:
            if 'crashed' in r:
                rep.violation('sibling:%s:crash' % r['key'], 'explorer child died (%s) on %s' % (r['crashed'], r['key']))
                continue
            if r.get('port_err') != 0 or not r.get('hist_active') or not r.get('ref_available'):
                continue  # this nuclide (or its sibling) does not have the mode
            nsib += 1
            for v in r['violations']:
                if v['oracle'] != 'ref':
                    continue
                c = r['config']
                rep.violation('sibling:%s:m%d:after:%s:%s' % (c['name'], c['mode'], c['hist'].split()[1].split(':')[0], dxlib.why_class(v['why'])),
                              '%s mode %d explored while %s (same mode) is initialised first and shot before every shot of it: %s (forced=%s)' % (c['name'], c['mode'], c['hist'].split()[1].split(':')[0], v['why'], v['forced']),
                              dxlib.replay_text(r, v, 'genbbsub'))
            rep.coverage['evaluations'] += r['executions']
    rep.coverage['double_beta_sibling_histories'] = nsib
    ex = tr = 0
    nhist = 0
    if lines:
        res2, d2 = dxlib.run_dx('plain', lines, 'c07coll', 'H', 'ref', deadline=300)
        for r in res2:
            if 'crashed' in r:
                rep.violation('collision:%s:crash' % r['key'], 'explorer child died (%s) on %s' % (r['crashed'], r['key']))
                continue
            if not r.get('hist_active'):
                raise SystemExit('HARNESS-ERROR: history working set of %s did not initialise' % r['key'])
            nhist += 1
            ex += r['executions']; tr += r['transitions']
            for v in r['violations']:
                if v['oracle'] != 'ref':
                    continue
                if v.get('replay') == 'NONDETERMINISTIC':
                    raise SystemExit('HARNESS-ERROR: nondeterministic replay for %s' % r['key'])
                c = r['config']
                rep.violation('collision:%s:after:%s:%s' % (c['name'], c['hist'].split()[1], dxlib.why_class(v['why'])),
                              '%s decayed right after %s in the same thread (history deviates %s): %s (forced=%s)' % (c['name'], c['hist'].split()[1], c['hist'].split()[2], v['why'], v['forced']),
                              dxlib.replay_text(r, v, 'genbbsub'))
    rep.coverage['evaluations'] += ex
    rep.coverage['collision_histories'] = {'beta_sampler_calls_logged': ncalls, 'distinct_Q_groups': len(groups), 'ordered_colliding_pairs': len(seen),
                                           'pairs_explored': nhist, 'executions': ex, 'edges': tr,
                                           'rule': 'all ordered pairs of beta-sampler calls (logged by the model over the layer-A executions of every reference nuclide) that agree in Q and '
                                                   'differ in another argument; layer H: every position of the successor\'s recorded execution gets tails, mid, both sides of every '
                                                   'threshold and the 24-point shape sweep; quick tier: every second pair'}


def replay(path):
    txt = open(path).read()
    if txt.startswith(('bkg ', 'dbd ')):
        return dxlib.replay(path)
    print(txt)
    return 1
