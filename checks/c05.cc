// c05 — a published nuclide name selects exactly one decay scheme (DESIGN §2 C05), C++ part:
//  mode "names":  print the library's catalogues (background_isotopes(), dbd_isotopes(), dbd_modes()).
//  mode "accept": for each candidate name of a category: does it initialise, and how many particles does a shot yield.
//  mode "scheme": for each published background name, the event obtained through the generator equals the event
//                 obtained by calling the nuclide's own scheme function (plus exactly the documented daughter, with
//                 the documented time shift) on the same deviates, with the same number of deviates consumed, for the
//                 default stream and every single forced deviate position over a value grid (deviation bound 1).
#include "dxcore.hpp"
#include "pool.hpp"
#include <bxdecay0/bb_utils.h>
#include "c05_schemes.inc"

static Ev ev_of(const bxdecay0::event & ev, size_t nd)
{
  Ev e;
  for (auto & p : ev.get_particles()) {
    e.code.push_back((int)p.get_code());
    e.t.push_back(p.get_time());
    e.px.push_back(p.get_px());
    e.py.push_back(p.get_py());
    e.pz.push_back(p.get_pz());
  }
  e.evtime = ev.get_time();
  e.label = ev.get_generator();
  e.ndraws = nd;
  return e;
}

static Ev direct(const SchemeRow & row, const Forced & f, uint64_t phase)
{
  PortRand r;
  r.s.forced = &f;
  r.s.phase = phase;
  r.horizon = 200000;
  bxdecay0::event ev;
  Ev e;
  try {
    double tdnuc = 0, tdnuc1 = 0;
    row.fn(r, ev, 0., tdnuc);
    if (row.daughter) {
      size_t np0 = ev.get_particles().size();
      bool go = true;
      if (row.only_after_beta) go = !ev.get_particles().empty() && !ev.get_particles().front().is_alpha();
      if (go) {
        row.daughter(r, ev, 0., tdnuc1);
        ev.shift_particles_time(tdnuc1, (int)np0);
      }
    }
  } catch (HorizonHit &) {
    e.horizon = true;
    return e;
  } catch (std::exception & x) {
    e.threw = true;
    e.what = x.what();
    return e;
  }
  return ev_of(ev, r.i);
}

static bool same(const Ev & a, const Ev & b)
{
  // bit-for-bit (a NaN component is C04's business, not a scheme mix-up)
  auto eq = [](const std::vector<double> & x, const std::vector<double> & y) { return x.size() == y.size() && (x.empty() || memcmp(x.data(), y.data(), x.size() * sizeof(double)) == 0); };
  return a.code == b.code && eq(a.px, b.px) && eq(a.py, b.py) && eq(a.pz, b.pz) && eq(a.t, b.t) && a.ndraws == b.ndraws && a.horizon == b.horizon && a.threw == b.threw;
}

static std::string describe(const Ev & e)
{
  std::string s = std::to_string(e.code.size()) + " particles [";
  for (size_t k = 0; k < e.code.size() && k < 12; k++) s += (k ? "," : "") + std::to_string(e.code[k]);
  return s + "], " + std::to_string(e.ndraws) + " deviates";
}

static std::string scheme_check(const SchemeRow & row, int nphase, bool deep)
{
  long execs = 0, distinct = 0;
  std::set<std::string> sigs;
  std::vector<std::pair<std::string, std::string>> viol;
  Config c;
  c.cat = "bkg";
  c.name = row.name;
  PortSide P;
  P.via_gen = true;
  if (P.init(c, 1) != 0) return "{\"name\":" + vx::jstr(row.name) + ",\"executions\":0,\"distinct\":0,\"violations\":[{\"key\":" + vx::jstr(std::string("bkg:") + row.name + ":init")
                               + ",\"text\":" + vx::jstr(std::string("published name does not initialise: ") + P.init_what) + "}]}";
  static const double GRID[] = {1e-12, 1e-6, 1e-3, 0.01, 0.05, 0.2, 0.35, 0.5, 0.65, 0.8, 0.95, 0.99, 0.999, 1 - 1e-6, 1 - 1e-12};
  for (int ph = 0; ph < nphase; ph++) {
    PHASE = 31 + 1009 * ph;
    Forced none;
    Ev base = P.shot(none);
    std::vector<Forced> runs;
    runs.push_back(none);
    for (size_t i = 0; i < base.ndraws && i < 80; i++)
      for (double v : GRID) {
        Forced f;
        f[i] = v;
        runs.push_back(f);
      }
    // the leading decisions (branch selection and what follows it) in pairs: every pair of the first five deviate
    // positions over the grid (deviation bound 2 where the scheme selectors live)
    for (size_t i = 0; i < 5; i++)
      for (size_t j = i + 1; j < 5; j++)
        for (double v : GRID)
          for (double w : GRID) {
            Forced f;
            f[i] = v;
            f[j] = w;
            runs.push_back(f);
          }
    if (deep) {
      // thorough tier: pairs over the first eight positions and triples over the first four (deviation bound 3 where
      // branch selection, daughter selection and the first transition are decided)
      for (size_t i = 0; i < 8; i++)
        for (size_t j = std::max<size_t>(i + 1, 5); j < 8; j++)
          for (double v : GRID)
            for (double w : GRID) {
              Forced f;
              f[i] = v;
              f[j] = w;
              runs.push_back(f);
            }
      for (size_t i = 0; i < 4; i++)
        for (size_t j = i + 1; j < 4; j++)
          for (size_t k = j + 1; k < 4; k++)
            for (double u : GRID)
              for (double v : GRID)
                for (double w : GRID) {
                  Forced f;
                  f[i] = u;
                  f[j] = v;
                  f[k] = w;
                  runs.push_back(f);
                }
    }
    for (auto & f : runs) {
      Ev a = P.shot(f);
      Ev b = direct(row, f, PHASE);
      execs++;
      std::string sig;
      for (int cd : a.code) sig += std::to_string(cd) + ",";
      sig += "/" + std::to_string(a.ndraws);
      if (sigs.insert(sig).second) distinct++;
      if (!same(a, b) && viol.size() < 4) {
        viol.push_back({std::string("bkg:") + row.name + ":scheme", std::string("name '") + row.name + "' through the generator yields " + describe(a) + "; its own scheme function yields " + describe(b)
                                                                         + " on the same deviates (forced=" + vx::forced_to_json(f) + ", stream " + std::to_string(PHASE) + ")"});
      }
      if (!a.threw && !a.horizon && a.label != row.name && viol.size() < 4) viol.push_back({std::string("bkg:") + row.name + ":label", "generator label is '" + a.label + "'"});
    }
  }
  std::ostringstream js;
  js << "{\"name\":" << vx::jstr(row.name) << ",\"executions\":" << execs << ",\"distinct\":" << distinct << ",\"violations\":[";
  for (size_t k = 0; k < viol.size(); k++) js << (k ? "," : "") << "{\"key\":" << vx::jstr(viol[k].first) << ",\"text\":" << vx::jstr(viol[k].second) << "}";
  js << "]}";
  return js.str();
}

// every published name generated one after the other in ONE process, in several orders (per-process state frozen by the first
// background call, prefix pairs such as Te133/Te133m met in both orders): each event still equals the name's own scheme
static std::string sequence_check(int order)
{
  size_t n = sizeof SCHEMES / sizeof SCHEMES[0];
  std::vector<size_t> idx(n);
  for (size_t k = 0; k < n; k++) idx[k] = order == 0 ? k : (order == 1 ? n - 1 - k : (k * 29 + 7) % n);
  long execs = 0;
  std::vector<std::pair<std::string, std::string>> viol;
  std::string prev = "(first of the process)";
  for (size_t k : idx) {
    const SchemeRow & row = SCHEMES[k];
    Config c;
    c.cat = "bkg";
    c.name = row.name;
    PortSide P;
    P.via_gen = true;
    if (P.init(c, 1) != 0) {
      viol.push_back({std::string("sequence:") + row.name + ":init", std::string("'") + row.name + "' does not initialise after '" + prev + "' in the same process: " + P.init_what});
      prev = row.name;
      continue;
    }
    for (int ph = 0; ph < 2; ph++) {
      PHASE = 31 + 1009 * ph;
      std::vector<Forced> runs(1);
      for (size_t i = 0; i < 3; i++)
        for (double v : {1e-12, 0.5, 1 - 1e-12}) {
          Forced f;
          f[i] = v;
          runs.push_back(f);
        }
      for (auto & f : runs) {
        Ev a = P.shot(f);
        Ev b = direct(row, f, PHASE);
        execs++;
        if (!same(a, b) && viol.size() < 8)
          viol.push_back({std::string("sequence:") + row.name + ":scheme", std::string("name '") + row.name + "' generated after '" + prev + "' (order " + std::to_string(order) + ") yields " + describe(a)
                                                                              + "; its own scheme function yields " + describe(b) + " on the same deviates (forced=" + vx::forced_to_json(f) + ")"});
      }
    }
    prev = row.name;
  }
  std::ostringstream js;
  js << "{\"name\":" << vx::jstr("sequence-order" + std::to_string(order)) << ",\"executions\":" << execs << ",\"distinct\":0,\"violations\":[";
  for (size_t k = 0; k < viol.size(); k++) js << (k ? "," : "") << "{\"key\":" << vx::jstr(viol[k].first) << ",\"text\":" << vx::jstr(viol[k].second) << "}";
  js << "]}";
  return js.str();
}

int main(int argc, char ** argv)
{
  std::string mode = argc > 1 ? argv[1] : "";
  setenv("BXDECAY0_RESOURCE_DIR", "/repo/resources", 0);
  FILE * ferr = freopen("/dev/null", "w", stderr);
  (void)ferr;
  if (mode == "names") {
    printf("{\"background\":[");
    bool first = true;
    for (auto & n : bxdecay0::background_isotopes()) { printf("%s%s", first ? "" : ",", vx::jstr(n).c_str()); first = false; }
    printf("],\"dbd\":[");
    first = true;
    for (auto & n : bxdecay0::dbd_isotopes()) { printf("%s%s", first ? "" : ",", vx::jstr(n).c_str()); first = false; }
    printf("],\"modes\":[");
    first = true;
    for (auto & kv : bxdecay0::dbd_modes()) {
      printf("%s{\"id\":%d,\"label\":%s,\"legacy\":%d}", first ? "" : ",", (int)kv.first, vx::jstr(kv.second.unique_label).c_str(), (int)kv.second.legacy_modebb);
      first = false;
    }
    printf("]}\n");
    return 0;
  }
  if (mode == "accept") {
    // argv[2] = category, names on stdin, one per line
    std::string cat = argv[2];
    std::vector<std::string> names;
    std::string l;
    while (std::getline(std::cin, l)) names.push_back(l);
    vx::run_pool(names.size(), 16, 300,
                 [&](size_t i) {
                   Config c;
                   c.cat = cat;
                   c.name = names[i];
                   c.level = 0;
                   // a mode every isotope of that sign supports is not known a priori: try the candidates in turn
                   std::vector<int> modes = cat == "dbd" ? std::vector<int>{1, 4, 9, 11, 12} : std::vector<int>{0};
                   int np = 0, ok = 0, mode_ok = 0;
                   std::string label;
                   for (int m : modes) {
                     PortSide P;
                     P.via_gen = true;
                     c.mode = m;
                     if (P.init(c, 1) != 0) continue;
                     ok = 1;
                     mode_ok = m;
                     Forced none;
                     PHASE = 5;
                     Ev e = P.shot(none);
                     np = (int)e.code.size();
                     label = e.label;
                     break;
                   }
                   return "{\"name\":" + vx::jstr(names[i]) + ",\"init\":" + std::to_string(ok) + ",\"mode\":" + std::to_string(mode_ok) + ",\"particles\":" + std::to_string(np) + ",\"label\":" + vx::jstr(label) + "}";
                 },
                 [&](size_t, const std::string & r) { printf("%s\n", r.c_str()); fflush(stdout); },
                 [&](size_t i, const std::string & how) { printf("{\"name\":%s,\"crashed\":%s}\n", vx::jstr(names[i]).c_str(), vx::jstr(how).c_str()); fflush(stdout); });
    return 0;
  }
  if (mode == "sequence") {
    vx::run_pool(3, 3, 1200, [&](size_t i) { return sequence_check((int)i); }, [&](size_t, const std::string & r) { printf("%s\n", r.c_str()); fflush(stdout); },
                 [&](size_t i, const std::string & how) { printf("{\"name\":%s,\"crashed\":%s}\n", vx::jstr("sequence-order" + std::to_string(i)).c_str(), vx::jstr(how).c_str()); });
    return 0;
  }
  if (mode == "scheme") {
    int nphase = argc > 2 ? atoi(argv[2]) : 2;
    bool deep = argc > 3 && std::string(argv[3]) == "deep";
    size_t n = sizeof SCHEMES / sizeof SCHEMES[0];
    vx::run_pool(n, 16, 2400, [&](size_t i) { return scheme_check(SCHEMES[i], nphase, deep); }, [&](size_t, const std::string & r) { printf("%s\n", r.c_str()); fflush(stdout); },
                 [&](size_t i, const std::string & how) { printf("{\"name\":%s,\"crashed\":%s}\n", vx::jstr(SCHEMES[i].name).c_str(), vx::jstr(how).c_str()); });
    return 0;
  }
  return 2;
}
