"""C17 — the Geant4 action hands over each particle unchanged and validates like the core (DESIGN §2 C17)."""
import json, os, subprocess
import vlib, gadata


def run(tier, rep):
    lib = vlib.build_lib('plain')
    d = vlib.scratch('c17')
    exe = os.path.join(d, 'c17')
    r = subprocess.run(['g++', '-std=c++17', '-O1', '-g1', '-I' + os.path.join(vlib.VERIF, 'engine/g4stub'), '-I' + os.path.join(vlib.REPO, 'extensions/bxdecay0_g4'),
                        '-I' + os.path.join(vlib.VERIF, 'engine'), '-I' + vlib.REPO, '-I' + lib, os.path.join(vlib.VERIF, 'checks/c17.cc'), '-o', exe,
                        '-L' + lib, '-lBxDecay0', '-Wl,-rpath,' + lib, '-lgsl', '-lgslcblas'], stdout=subprocess.PIPE, stderr=subprocess.PIPE, text=True)
    if r.returncode != 0:
        raise SystemExit('BUILD-ERROR: the Geant4 extension sources do not compile against the stand-in headers:\n' + r.stderr[-1500:])
    gadir = os.path.join(d, 'ga')
    gadata.install_tree(gadir)
    env = dict(os.environ)
    env['BXDECAY0_DBD_GA_DATA_DIR'] = gadir
    out = os.path.join(d, 'out.jsonl')
    r = subprocess.run([exe, '--out', out] + (['--full'] if tier != 'quick' else []), env=env, timeout=3000, stdout=subprocess.PIPE, stderr=subprocess.PIPE, text=True)
    if r.returncode != 0:
        raise SystemExit('HARNESS-ERROR: c17 exited %d %s' % (r.returncode, r.stderr[-500:]))
    n = acc = prim = 0
    samples = []
    for x in vlib.read_jsonl(out):
        n += 1
        if 'crashed' in x:
            rep.violation(x['key'] + ':crash', 'configuration %s: the action died: %s' % (x['key'], x['crashed']))
            continue
        if not x['g4_refused']:
            acc += 1
            if len(samples) < 4 and x['primaries']:
                samples.append({'configuration': x['key'], 'primaries': x['primaries'], 'events': x['events']})
        prim += x['primaries']
        for v in x['violations']:
            rep.violation(v['key'], v['text'])
    rep.coverage.update({
        'evaluations': n, 'distinct_nontrivial': acc, 'accepted_configurations': acc, 'primaries_compared': prim, 'exhaustive': True, 'samples': samples or ['none'],
        'rule': 'the unmodified extension sources compiled against a minimal Geant4 stand-in (CLHEP units MeV=1, second=1e9 ns; the particle gun follows G4ParticleGun semantics and '
                'records every GeneratePrimaryVertex) and driven over the product category {background, dbd, "", alpha} x nuclides (10 valid per category, names of the other '
                'category, unknown names, names the plumbing accepts by prefix but nobody publishes) x seed {-1, 1, 314159} x mode {-3,0,1,4,9,10,20,21,25} x level {-1,0,1,99} x '
                'window {none, valid, inverted, lower bound only, upper bound only} x MDL {off, on} x vertex generator {none, unique point, exhausted after one event}; longer runs (200 / 1000 decays of Kr81, Co60, Bi207, Bi214 and two double-beta cascades) without a vertex generator and with one that hands out a different point at every call (decay k must sit on point k with all its particles); on a sub-grid additionally: gun multiplicity set to 2 (3) by the user before the run, and the same action object first serving one of 5 other configurations (MDL on a double-beta and on a background request, a windowed request, two refused requests) before SetConfiguration (with and without an explicit ApplyConfiguration afterwards); refused <=> the core refuses (driver rules + '
                'decay0_generator::initialize in-process), observed as AbortRun/exception and zero primaries; accepted: one primary per particle, in order, species, momentum in '
                'MeV, time in seconds, common vertex; non-trivial = accepted configurations',
    })
    rep.assumptions += ['Geant4 itself is not available offline: the stand-in models only the members the extension touches', 'seed 0 is not enumerated: the extension documents both seed>0 and seed>=0',
                        'an energy range on a mode without range support and an invalid MDL label are outside the property\'s refusal list']


def replay(path):
    print(open(path).read())
    return 1
