"""C08 — no undefined behaviour or memory error on any generation path (DESIGN §2 C08):
the drivers of the other properties re-run against the ASan+UBSan build of /repo."""
import glob, json, os, re, subprocess
import dxlib, vlib, c01, c02


def parse_san_logs(d, pid2key):
    """returns list of (key, text) — key = '<kind> <top bxdecay0 frame>'"""
    out = {}
    # UndefinedBehaviorSanitizer reports collected by the harness-side hook (engine/sanhook.hpp): one line per location
    hook = os.path.join(d, 'ubsan.hook')
    if os.path.exists(hook):
        for ln in open(hook, errors='replace'):
            m = re.match(r'UBSAN ([\w-]+): (.*) at (\S+):(\d+)$', ln.strip())
            if m:
                key = '%s@%s:%s' % (m.group(1), os.path.basename(m.group(3)), m.group(4))
                out.setdefault(key, ('?', ln.strip()))
    for f in sorted(glob.glob(os.path.join(d, 'asan.*')) + glob.glob(os.path.join(d, 'ubsan.*'))):
        if f.endswith('.hook'):
            continue
        pid = f.rsplit('.', 1)[-1]
        txt = open(f, errors='replace').read()
        # split into reports
        for m in re.finditer(r'(==\d+==ERROR: AddressSanitizer: ([\w-]+).*?(?=\n==\d+==ERROR|\Z))|(^(\S+?):(\d+):(\d+): runtime error: ([^\n]*)((?:\n\s+#\d+[^\n]*)*))', txt, re.S | re.M):
            if m.group(1):
                kind = m.group(2)
                frames = re.findall(r'#\d+ 0x[0-9a-f]+ in (\S+) (\S+)', m.group(1))
                top = next((('%s:%s' % (os.path.basename(fr[1]).split(':')[0], fr[0])) for fr in frames if '/repo/' in fr[1] or 'bxdecay0' in fr[1]), frames[0][0] if frames else '?')
                body = m.group(1)[:1500]
            else:
                kind = re.sub(r'[-+]?\d+(\.\d+)?(e[-+]?\d+)?', '#', m.group(7))[:60]
                top = '%s:%s' % (os.path.basename(m.group(4)), m.group(5))
                body = m.group(3)[:1500]
            key = '%s@%s' % (re.sub(r'\s+', '_', kind), top)
            out.setdefault(key, (pid2key.get(pid, '?'), body))
    return out


def run(tier, rep):
    if tier == 'quick':
        layers, deadline = 'A', 400
    else:
        layers, deadline = 'A,B1', 1500
    cfg = ['bkg %s' % n for n in dxlib.bkg_all()] + c02.grid()
    total = []
    logs = {}
    for api in ('generator', 'genbbsub'):
        res, d = dxlib.run_dx('asan', cfg, 'c08' + api, layers, 'ref,inv', api=api, deadline=deadline, timeout=3000)
        acc = [r for r in res if 'crashed' in r or r['port_err'] == 0]
        pid2key = {str(r.get('pid')): r['key'] for r in res if 'pid' in r}
        for k, v in parse_san_logs(d, pid2key).items():
            logs.setdefault(k, v)
        wcfg = c02.window_cfgs(res)
        wcfg = [w for i, w in enumerate(wcfg) if tier != 'quick' or i % 8 == vlib.SEED % 8]
        res2, d2 = dxlib.run_dx('asan', wcfg, 'c08w' + api, 'A', 'ref,inv', api=api, deadline=deadline, timeout=3000)
        pid2key = {str(r.get('pid')): r['key'] for r in res2 if 'pid' in r}
        for k, v in parse_san_logs(d2, pid2key).items():
            logs.setdefault(k, v)
        total += acc + [r for r in res2 if 'crashed' in r or r['port_err'] == 0]
        if tier == 'quick':
            break
    # ---- the edge coverage again under squeezed default streams on the sanitizer build (loops that keep turning fill the
    #      particle list, the shell-vacancy counters and the work arrays further than any fair stream does)
    squeezes = ['0.5,1'] if tier == 'quick' else dxlib.SQUEEZES
    for sq in squeezes:
        rs, ds = dxlib.run_dx('asan', ['bkg %s' % n for n in dxlib.bkg_all()] + ([] if tier == 'quick' else c02.grid()), 'c08s', 'A', 'ref,inv', api='genbbsub', deadline=deadline, timeout=3000,
                              extra=['--squeeze', sq, '--horizon', '6000' if tier == 'quick' else '30000'])
        pid2key = {str(r.get('pid')): r['key'] for r in rs if 'pid' in r}
        for k, v in parse_san_logs(ds, pid2key).items():
            logs.setdefault(k, v)
        for r in rs:
            r['squeeze_pass'] = sq
        total += [r for r in rs if 'crashed' in r or r['port_err'] == 0]
    rep.coverage['squeezed_default_streams'] = list(squeezes)
    # ---- uninitialised automatic variables: neither sanitizer sees them and the optimiser usually papers over them (it
    #      substitutes the value of another path for the undefined one). On an unoptimised build with every automatic
    #      variable pre-filled with a byte pattern such a read yields an absurd value, which the comparison with the
    #      reference model then shows: edge coverage of every background name and the accepted grid on that build
    resp, dp = dxlib.run_dx('pattern', cfg, 'c08p', 'A', 'ref', api='genbbsub', deadline=deadline, timeout=3000)
    for r in resp:
        if 'crashed' in r:
            rep.violation('uninit:%s:crash' % r['key'], 'explorer child died (%s) on the pattern-initialised build while exploring %s' % (r['crashed'], r['key']))
            continue
        if r.get('ref_ier') != 0:
            continue
        for v in r['violations']:
            if v['oracle'] != 'ref' or v.get('replay') == 'NONDETERMINISTIC':
                continue
            rep.violation('uninit:%s:%s' % (r['key'], dxlib.why_class(v['why'])),
                          '%s: on the unoptimised build with pattern-initialised automatic variables the event differs from the reference model (%s, forced=%s): a never-assigned local is read on this path'
                          % (r['key'], v['why'], v['forced']), dxlib.replay_text(r, v, 'genbbsub'))
    rep.coverage['pattern_build_executions'] = sum(r.get('executions', 0) for r in resp if 'crashed' not in r)
    # ---- the drivers of the other properties on the sanitizer build (event reuse, API histories, MDL, reader, gA)
    import shutil, tempfile, concurrent.futures as cf, gadata
    dd = vlib.scratch('c08x')
    extra_runs = {}

    def side(name, src, args, tmo=3000, needs_dir=False):
        exe = vlib.build_harness(src, 'asan')
        logd = os.path.join(dd, name)
        os.makedirs(logd, exist_ok=True)
        env = dict(os.environ)
        env['ASAN_OPTIONS'] = 'halt_on_error=0:detect_leaks=0:log_path=%s/asan' % logd
        env['UBSAN_OPTIONS'] = 'halt_on_error=0:print_stacktrace=1:log_path=%s/ubsan' % logd
        env['VERIF_SAN_LOG'] = os.path.join(logd, 'ubsan.hook')
        gad = os.path.join(logd, 'ga')
        gadata.install_tree(gad)
        env['BXDECAY0_DBD_GA_DATA_DIR'] = gad
        work = None
        a = list(args)
        if needs_dir:
            base_tmp = '/dev/shm' if os.path.isdir('/dev/shm') and os.access('/dev/shm', os.W_OK) else logd
            work = tempfile.mkdtemp(prefix='bxd0-c08-', dir=base_tmp)
            a = ['--dir', work] + a
        out = os.path.join(logd, 'out.json')
        try:
            r = subprocess.run([exe] + a + ['--out', out], env=env, timeout=tmo, stdout=subprocess.PIPE, stderr=subprocess.PIPE, text=True)
        finally:
            if work:
                shutil.rmtree(work, ignore_errors=True)
        return name, r.returncode, logd, out
    q = tier == 'quick'
    # API histories (several generators of the same mode alive / destroyed in one process, event reuse, rebuilds): every
    # double-beta mode on two nuclides, a few cascades and chains
    hcfg = os.path.join(dd, 'histories.cfg')
    hl = []
    for m in range(1, 21):
        for n in ('Mo100', 'Nd150', 'Cd106') if not q else ('Mo100', 'Cd106'):
            hl.append('2 dbd %s 0 %d' % (n, m))
    hl += ['2 dbd Nd150 3 1', '2 dbd Mo100 2 1', '2 bkg Co60', '2 bkg Bi207+Pb207m', '2 bkg Bi214+Po214', '2 bkg Tl208', '2 bkg Co60 0 0 -1 -1 MDL']
    open(hcfg, 'w').write('\n'.join(hl) + '\n')
    # the gA sampler on a handful of synthetic datasets (decoder, both sampling methods, reuse across datasets)
    import c14 as _c14
    garoot = os.path.join(dd, 'gads')
    ganames = []
    for nm, rows, emin, emax in (('g_a', [[1.0, 2.0, 1.0], [2.0, 0.5], [9.0]], 0.1, 1.1), ('g_b', [[1.0, 1e-6], [1e3]], 0.01, 1.0), ('g_c', _c14.shapes(4)['nines-rows'], 0.1, 2.9),
                                 ('g_d', _c14.shapes(5)['ridge'], 0.01, 1.0)):
        if _c14.build(garoot, nm, rows, emin, emax):
            ganames.append(nm)
    galist = os.path.join(dd, 'ga.list')
    open(galist, 'w').write('\n'.join(ganames) + '\n')
    jobs = [('ga', 'checks/c14.cc', ['--list', galist, '--root', garoot], False), ('histories', 'checks/c07.cc', ['--cfgfile', hcfg, '--long', '100' if q else '2000'], False), ('mdl', 'checks/c10.cc', [] if q else ['--full'], False), ('reader', 'checks/c11.cc', ['--nmax', '3' if q else '5'], True), ('protocol', 'checks/c09.cc', ['--depth', '5' if q else '6'], False)]
    with cf.ThreadPoolExecutor(4) as ex:
        futs = [ex.submit(side, n, s_, a, 3000, nd) for n, s_, a, nd in jobs]
        for f in futs:
            name, rc, logd, out = f.result()
            extra_runs[name] = rc
            if rc != 0:
                rep.violation('san:%s:crash' % name, 'the %s driver died on the sanitizer build (exit %d)' % (name, rc))
            for k, v in parse_san_logs(logd, {}).items():
                logs.setdefault(name + ':' + k, (name + ' driver', v[1]))
            try:
                txt = open(out).read()
                x = json.loads(txt) if name != 'histories' else {'violations': [v for ln in txt.splitlines() if ln.strip() for v in (json.loads(ln).get('violations', []) + ([{'key': 'crash', 'text': 'history exploration child died: ' + json.loads(ln)['crashed']}] if 'crashed' in json.loads(ln) else []))]}
                for v in x.get('violations', []):
                    if 'unexpected exception' in v['text'] or 'crash' in v['key']:
                        rep.violation('san:%s:%s' % (name, v['key'][:80]), v['text'])
            except Exception:
                pass
    rep.coverage['other_drivers_on_sanitizer_build'] = extra_runs
    # ---- thorough: valgrind memcheck (uninitialised-value use, which neither ASan nor UBSan sees) on the plain build:
    #      layer A of every background name and one default execution of every accepted double-beta configuration
    if tier != 'quick':
        exe = vlib.build_harness('checks/dx.cc', 'plain')
        vd = os.path.join(dd, 'vg')
        os.makedirs(vd, exist_ok=True)
        lit = dxlib.write_literals(vd)
        vg_runs = 0
        for tag, lines, layers in (('bkg', ['bkg %s' % n for n in dxlib.bkg_all()], 'A'), ('dbd', c02.grid(), '0')):
            cfgf = os.path.join(vd, tag + '.cfg')
            open(cfgf, 'w').write('\n'.join(lines) + '\n')
            outf = os.path.join(vd, tag + '.jsonl')
            cmd = ['valgrind', '-q', '--error-exitcode=9', '--trace-children=yes', '--log-file=%s/vg-%s.%%p' % (vd, tag), exe, '--cfgfile', cfgf, '--out', outf,
                   '--layers', layers, '--oracle', 'ref,inv', '--api', 'generator', '--jobs', '16', '--litdir', lit, '--timeout', '3000', '--deadline', '2400']
            r = subprocess.run(cmd, stdout=subprocess.PIPE, stderr=subprocess.PIPE, text=True, timeout=3400)
            if r.returncode not in (0, 9):
                rep.violation('valgrind:%s:run' % tag, 'valgrind run of the explorer exited %d: %s' % (r.returncode, r.stderr[-300:]))
            for x in vlib.read_jsonl(outf):
                vg_runs += x.get('executions', 0) if 'crashed' not in x else 0
        vrep = {}
        for f in glob.glob(os.path.join(vd, 'vg-*')):
            txt = open(f, errors='replace').read()
            for m in re.finditer(r'==\d+== (Conditional jump or move depends on uninitialised value|Use of uninitialised value[^\n]*|Invalid (?:read|write)[^\n]*|Syscall param[^\n]*)\n((?:==\d+==    [^\n]*\n)+)', txt):
                fr = re.search(r'(?:at|by) 0x[0-9A-F]+: (bxdecay0::[\w:~]+)[^\n]*\((\w+\.cc):(\d+)\)', m.group(2))
                key = '%s@%s' % (re.sub(r'\s+', '_', m.group(1))[:40], ('%s:%s' % (fr.group(2), fr.group(1))) if fr else 'unknown')
                vrep.setdefault(key, m.group(0)[:1500])
        for k, body in sorted(vrep.items()):
            rep.violation('valgrind:' + k, 'valgrind memcheck report:\n' + body)
        rep.coverage['valgrind_executions'] = vg_runs
        rep.coverage['valgrind_report_sites'] = len(vrep)
    c01.aggregate(rep, total, False, ('san',), 'generator',
                  'the C01-C04 explorer (layers %s; every published background name, every accepted double-beta configuration, windows) run against '
                  'the -fsanitize=address,undefined -D_GLIBCXX_ASSERTIONS build of /repo with recover mode; oracle: zero AddressSanitizer/UBSan reports '
                  '(callback + log files), no child killed by a signal; a report is identified by kind and top bxdecay0 frame' % layers)
    for key, (cfgkey, body) in sorted(logs.items()):
        rep.violation('san:' + key, 'sanitizer report while exploring %s:\n%s' % (cfgkey, body))
    rep.coverage['sanitizer_report_sites'] = len(logs)
    rep.assumptions += ['float division by zero is not checked (IEC 559 semantics are relied upon by the reference)',
                        'uninitialised-value use is only covered by the thorough tier (valgrind memcheck) where enabled']


def replay(path):
    print(open(path).read())
    return 1
