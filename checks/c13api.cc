// c13api — what the library API yields for the settings of one bxdecay0-run command line (DESIGN §2 C13): the
// event file content is recomputed in-process from decay0_generator, std::default_random_engine(seed) and the
// documented record format; written independently of programs/bxdecay0_driver.cpp.
//   c13api <category> <nuclide> <level> <mode> <emin|nan> <emax|nan> <seed> <count> <activity|nan> <mdl:0|1> <label> <rank> <phi> <theta> <aperture>
// prints the expected .d0t on stdout (exit 0) or "REFUSED: <why>" (exit 3).
#include <bxdecay0/decay0_generator.h>
#include <bxdecay0/event.h>
#include <bxdecay0/mdl_event_op.h>
#include <bxdecay0/std_random.h>
#include <cmath>
#include <cstdlib>
#include <iostream>
#include <memory>
#include <random>
#include <sstream>
#include <string>

static double num(const char * s) { return std::string(s) == "nan" ? std::nan("") : atof(s); }

int main(int argc, char ** argv)
{
  if (argc < 16) return 2;
  std::string cat = argv[1], nuclide = argv[2];
  int level = atoi(argv[3]), mode = atoi(argv[4]);
  double emin = num(argv[5]), emax = num(argv[6]);
  unsigned seed = (unsigned)atol(argv[7]);
  long count = atol(argv[8]);
  double activity = num(argv[9]);
  bool mdl = atoi(argv[10]) != 0;
  FILE * f = freopen("/dev/null", "w", stderr);
  (void)f;
  try {
    std::default_random_engine generator(seed);
    bxdecay0::std_random prng(generator);
    bxdecay0::decay0_generator g;
    g.set_decay_category(cat == "dbd" ? bxdecay0::decay0_generator::DECAY_CATEGORY_DBD : bxdecay0::decay0_generator::DECAY_CATEGORY_BACKGROUND);
    g.set_decay_isotope(nuclide);
    if (cat == "dbd") {
      g.set_decay_dbd_level(level);
      g.set_decay_dbd_mode((bxdecay0::dbd_mode_type)mode);
      if (!std::isnan(emin) || !std::isnan(emax)) g.set_decay_dbd_esum_range(std::isnan(emin) ? 0.0 : emin, std::isnan(emax) ? 5000.0 : emax);
    }
    if (mdl) {
      auto op = std::make_shared<bxdecay0::momentum_direction_lock_event_op>();
      bxdecay0::momentum_direction_lock_event_op::config_type c;
      c.particle_label = argv[11];
      c.target_particle_rank = atoi(argv[12]);
      c.cone_phi_degree = atof(argv[13]);
      c.cone_theta_degree = atof(argv[14]);
      c.cone_aperture_degree = atof(argv[15]);
      op->set(c);
      g.add_operation(op);
    }
    g.initialize(prng);
    std::exponential_distribution<> timer(activity);
    std::ostringstream out;
    out.precision(15);
    bxdecay0::event ev;
    for (long i = 0; i < count; i++) {
      g.shoot(prng, ev);
      double t = 0.0;
      if (!std::isnan(activity)) t = timer(generator);
      ev.set_time(t);
      out << i << ' ';
      ev.store(out, bxdecay0::event::STORE_EVENT_TIME);
      out << '\n';
      ev.reset();
    }
    std::cout << out.str();
    std::cout.flush();
    fprintf(stdout, "#toallevents=%.15g\n", g.get_to_all_events());
  } catch (std::exception & e) {
    std::cout << "REFUSED: " << e.what() << std::endl;
    return 3;
  }
  return 0;
}
