// c13api — what the library API yields for the settings of one bxdecay0-run command line (DESIGN §2 C13): the
// event file content is recomputed in-process from decay0_generator, std::default_random_engine(seed) and the
// documented record format; written independently of programs/bxdecay0_driver.cpp.
//   c13api <category> <nuclide> <level> <mode> <emin|nan> <emax|nan> <seed> <count> <activity|nan> <mdl:0|1> <label> <rank> <phi> <theta> <aperture>
// prints the expected .d0t on stdout (exit 0) or "REFUSED: <why>" (exit 3).
#include <bxdecay0/decay0_generator.h>
#include <bxdecay0/event.h>
#include <bxdecay0/mdl_event_op.h>
#include <bxdecay0/std_random.h>
#include <ref.h>
#include "stream.hpp"
#include <cmath>
#include <cstdlib>
#include <iostream>
#include <memory>
#include <random>
#include <sstream>
#include <string>

// the documented arrangement: ONE seeded engine; the decay generator draws uniform deviates in [0,1) from it and the decay
// timer draws its exponential delays from the same engine, in program order. The adaptor is the check's own (the library's
// wrapper class is the thing under test: were it to stop advancing the caller's engine, a reference built on it would too)
struct shared_engine_random : bxdecay0::i_random {
  std::default_random_engine & g;
  std::uniform_real_distribution<double> ud{0.0, 1.0};
  explicit shared_engine_random(std::default_random_engine & g_) : g(g_) {}
  double operator()() override { return ud(g); }
};

static double num(const char * s) { return std::string(s) == "nan" ? std::nan("") : atof(s); }

int main(int argc, char ** argv)
{
  if (argc < 16) return 2;
  std::string cat = argv[1], nuclide = argv[2];
  int level = atoi(argv[3]), mode = atoi(argv[4]);
  double emin = num(argv[5]), emax = num(argv[6]);
  unsigned seed = (unsigned)atol(argv[7]);
  long count = atol(argv[8]);
  double activity = num(argv[9]);
  bool mdl = atoi(argv[10]) != 0;
  FILE * f = freopen("/dev/null", "w", stderr);
  (void)f;
  // the acceptance rules of the reference (transpiled GENBBsub, kernel stubbed: only the nuclide/level/mode rules run) decide
  // before the library is asked: a request they refuse must be refused by the program whatever the library thinks of it
  if (cat == "dbd" && mode >= 1 && mode <= 20) {
    d0ref::init_blockdata();
    d0ref::mon.reset();
    d0ref::mon.stub_bb = true;
    d0ref::fstr chn(16);
    chn.assign(d0ref::FS(nuclide.c_str()));
    int i2 = 1, lev = level, md = mode, ist = -1, ier = 0;
    vx::Forced none;
    vx::Source src;
    src.forced = &none;
    d0ref::mon.source = [](size_t pos, void * c) { return ((vx::Source *)c)->at(pos); };
    d0ref::mon.ctx = &src;
    try {
      d0ref::f_genbbsub(i2, chn, lev, md, ist, ier);
    } catch (std::exception &) {
      ier = -98;
    }
    d0ref::mon.stub_bb = false;
    if (ier != 0 || (mode == 20 && level != 0)) {
      std::cout << "REFUSED: reference rules (GENBBsub ier=" << ier << ")" << std::endl;
      return 3;
    }
  }
  try {
    std::default_random_engine generator(seed);
    shared_engine_random prng(generator);
    bxdecay0::decay0_generator g;
    g.set_decay_category(cat == "dbd" ? bxdecay0::decay0_generator::DECAY_CATEGORY_DBD : bxdecay0::decay0_generator::DECAY_CATEGORY_BACKGROUND);
    g.set_decay_isotope(nuclide);
    if (cat == "dbd") {
      g.set_decay_dbd_level(level);
      g.set_decay_dbd_mode((bxdecay0::dbd_mode_type)mode);
      if (!std::isnan(emin) || !std::isnan(emax)) g.set_decay_dbd_esum_range(std::isnan(emin) ? 0.0 : emin, std::isnan(emax) ? 5000.0 : emax);
    }
    if (mdl) {
      auto op = std::make_shared<bxdecay0::momentum_direction_lock_event_op>();
      bxdecay0::momentum_direction_lock_event_op::config_type c;
      c.particle_label = argv[11];
      c.target_particle_rank = atoi(argv[12]);
      c.cone_phi_degree = atof(argv[13]);
      c.cone_theta_degree = atof(argv[14]);
      c.cone_aperture_degree = atof(argv[15]);
      op->set(c);
      g.add_operation(op);
    }
    g.initialize(prng);
    std::exponential_distribution<> timer(activity);
    std::ostringstream out;
    out.precision(15);
    bxdecay0::event ev;
    for (long i = 0; i < count; i++) {
      g.shoot(prng, ev);
      double t = 0.0;
      if (!std::isnan(activity)) t = timer(generator);
      ev.set_time(t);
      out << i << ' ';
      ev.store(out, bxdecay0::event::STORE_EVENT_TIME);
      out << '\n';
      ev.reset();
    }
    std::cout << out.str();
    std::cout.flush();
    fprintf(stdout, "#toallevents=%.15g\n", g.get_to_all_events());
  } catch (std::exception & e) {
    std::cout << "REFUSED: " << e.what() << std::endl;
    return 3;
  }
  return 0;
}
