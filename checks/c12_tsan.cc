// c12_tsan — free-running ThreadSanitizer pass for C12 (DESIGN §2 C12, "race pass"): the same thread bodies as the
// scheduler harness, unserialised, so that unsynchronised accesses (which a cooperative scheduler's hand-offs would
// hide behind happens-before edges) are reported. GSL's handler variable lives in uninstrumented libgsl: the
// interposers mirror every access to it on an instrumented proxy variable.
//
//   c12_tsan <repetitions>
#include <bxdecay0/bb.h>
#include <bxdecay0/dbd_gA.h>
#include <bxdecay0/decay0_generator.h>
#include <bxdecay0/event.h>
#include <bxdecay0/fermi.h>
#include <bxdecay0/gauss.h>
#include <bxdecay0/genbbsub.h>
#include <bxdecay0/i_random.h>
#include <bxdecay0/mdl_event_op.h>
#include <bxdecay0/resource.h>
#include <memory>
#include "stream.hpp"
#include <cmath>
#include <cstdio>
#include <dlfcn.h>
#include <gsl/gsl_errno.h>
#include <thread>
#include <vector>

static gsl_error_handler_t * volatile g_proxy = nullptr;
extern "C" gsl_error_handler_t * gsl_set_error_handler_off(void)
{
  static auto f = (gsl_error_handler_t * (*)(void)) dlsym(RTLD_NEXT, "gsl_set_error_handler_off");
  gsl_error_handler_t * old = g_proxy;
  g_proxy = nullptr;
  (void)old;
  return f();
}
extern "C" gsl_error_handler_t * gsl_set_error_handler(gsl_error_handler_t * h)
{
  static auto f = (gsl_error_handler_t * (*)(gsl_error_handler_t *)) dlsym(RTLD_NEXT, "gsl_set_error_handler");
  gsl_error_handler_t * old = g_proxy;
  g_proxy = h;
  (void)old;
  return f(h);
}

// libc functions with hidden process-wide state: every call writes an instrumented proxy (see engine/nonreentrant.hpp)
static volatile long g_nr_proxy[8];
#define NR_HOOK(k) (g_nr_proxy[(k)] = g_nr_proxy[(k)] + 1)
#include "nonreentrant.hpp"

struct Rnd : bxdecay0::i_random {
  uint64_t phase = 1;
  size_t i = 0;
  double operator()() override { return vx::stream_value(phase, i++); }
};

static void generator_body(int tid, bool dbd, const char * name, int level, int mode, bool ga, double mdl_aperture_deg = -1.0, double w1 = -1.0, double w2 = -1.0)
{
  using bxdecay0::decay0_generator;
  try {
    decay0_generator g;
    if (mdl_aperture_deg >= 0) {
      // a post-generation operation of its own (each instance with another aperture)
      auto op = std::make_shared<bxdecay0::momentum_direction_lock_event_op>();
      op->set(bxdecay0::INVALID_PARTICLE, 0, 0.0, 0.0, 1.0, mdl_aperture_deg * M_PI / 180.0, false);
      g.add_operation(op);
    }
    g.set_decay_category(dbd ? decay0_generator::DECAY_CATEGORY_DBD : decay0_generator::DECAY_CATEGORY_BACKGROUND);
    g.set_decay_isotope(name);
    if (dbd) {
      g.set_decay_dbd_level(level);
      g.set_decay_dbd_mode((bxdecay0::dbd_mode_type)mode);
      if (w1 >= 0) g.set_decay_dbd_esum_range(w1, w2);
    }
    Rnd r;
    r.phase = 100 + tid;
    g.initialize(r);
    for (int k = 0; k < 20; k++) {
      bxdecay0::event ev;
      g.shoot(r, ev);
    }
  } catch (std::exception & e) {
    (void)ga; // the driver installs synthetic gA datasets: an exception is as unexpected as for any other generator
    fprintf(stderr, "UNEXPECTED-EXCEPTION %s: %s\n", name, e.what());
  }
}

static double f_smooth(double x, void *) { return std::exp(-x * x); }

int main(int argc, char ** argv)
{
  int reps = argc > 1 ? atoi(argv[1]) : 10;
  int group = argc > 2 ? atoi(argv[2]) : 0;
  setenv("BXDECAY0_RESOURCE_DIR", "/repo/resources", 0);
  // first use from different threads at once: every lazily built global is "first used" only once per process, so each
  // group is run in a process of its own
  if (group == 1) {
    // the very first double-beta initialisations of the process, concurrently (mode table, isotope lists)
    std::vector<std::thread> th;
    th.emplace_back([] { generator_body(0, true, "Mo100", 0, 1, false); });
    th.emplace_back([] { generator_body(1, true, "Nd150", 0, 20, false); });
    th.emplace_back([] { generator_body(2, true, "Cd106", 0, 9, false); });
    th.emplace_back([] { generator_body(3, true, "Se82", 0, 4, false); });
    for (auto & t : th) t.join();
  } else if (group == 2) {
    // the very first background initialisations, concurrently, on nuclides sharing helper routines
    std::vector<std::thread> th;
    th.emplace_back([] { generator_body(0, false, "Sr90", 0, 0, false); });
    th.emplace_back([] { generator_body(1, false, "K42", 0, 0, false); });
    th.emplace_back([] { generator_body(2, false, "Cs137+Ba137m", 0, 0, false); });
    th.emplace_back([] { generator_body(3, false, "Y90", 0, 0, false); });
    th.emplace_back([] { generator_body(4, false, "K40", 0, 0, false); });   // forbidden-unique shapes (beta2)
    th.emplace_back([] { generator_body(5, false, "Kr85", 0, 0, false); });
    th.emplace_back([] { generator_body(6, false, "Eu152", 0, 0, false); }); // beta1 shapes, conversion cascades
    th.emplace_back([] { generator_body(7, false, "Cd113", 0, 0, false); });
    for (auto & t : th) t.join();
  } else if (group == 3) {
    // the first gA initialisations, concurrently
    std::vector<std::thread> th;
    th.emplace_back([] { generator_body(0, true, "Mo100", 0, 21, true); });
    th.emplace_back([] { generator_body(1, true, "Se82", 0, 22, true); });
    th.emplace_back([] { generator_body(2, true, "Cd116", 0, 23, true); });
    for (auto & t : th) t.join();
  } else if (group == 4) {
    // resource look-ups from several threads at once: the public functions themselves, and gA initialisations that fall
    // back on the resource directory because no dataset directory is given (they may legitimately fail: no data there)
    const char * ga0 = getenv("BXDECAY0_DBD_GA_DATA_DIR");
    std::string ga_saved = ga0 ? ga0 : "";
    unsetenv("BXDECAY0_DBD_GA_DATA_DIR");
    std::vector<std::thread> th;
    for (int t = 0; t < 3; t++)
      th.emplace_back([] {
        for (int k = 0; k < 50; k++) {
          try {
            std::string d = bxdecay0::get_resource_dir(true);
            std::string f = bxdecay0::get_resource("description/dbd_modes.lis", true);
            if (d.empty() || f.empty()) fprintf(stderr, "UNEXPECTED-EXCEPTION resource: empty path\n");
          } catch (std::exception & e) {
            fprintf(stderr, "UNEXPECTED-EXCEPTION resource: %s\n", e.what());
          }
        }
      });
    th.emplace_back([] {
      try {
        bxdecay0::decay0_generator g;
        g.set_decay_category(bxdecay0::decay0_generator::DECAY_CATEGORY_DBD);
        g.set_decay_isotope("Mo100");
        g.set_decay_dbd_level(0);
        g.set_decay_dbd_mode(bxdecay0::DBDMODE_21);
        Rnd r;
        g.initialize(r);
      } catch (std::exception &) {
      }
    });
    for (auto & t : th) t.join();
    if (!ga_saved.empty()) setenv("BXDECAY0_DBD_GA_DATA_DIR", ga_saved.c_str(), 1);
  } else if (group == 6) {
    // the very first resource access of the process is a gA initialisation that fails (dataset directory given, table absent):
    // afterwards, and at the same time from other threads, generators that read the resource lists must still initialise
    const char * ga0 = getenv("BXDECAY0_DBD_GA_DATA_DIR");
    std::string ga_saved = ga0 ? ga0 : "";
    setenv("BXDECAY0_DBD_GA_DATA_DIR", "/nonexistent-bxdecay0-ga-dir", 1);
    auto failing = [] {
      for (int m = 0; m < 2; m++) {
        try {
          bxdecay0::dbd_gA g;
          g.set_nuclide("Mo100");
          g.set_process(bxdecay0::dbd_gA::PROCESS_G0);
          g.set_shooting(m ? bxdecay0::dbd_gA::SHOOTING_REJECTION : bxdecay0::dbd_gA::SHOOTING_INVERSE_TRANSFORM_METHOD);
          g.initialize();
        } catch (std::exception &) {
        }
      }
    };
    failing(); // first, alone
    {
      std::vector<std::thread> th;
      th.emplace_back(failing);
      th.emplace_back([] { generator_body(1, true, "Mo100", 0, 1, false); });
      th.emplace_back([] { generator_body(2, true, "Cd106", 0, 9, false); });
      for (auto & t : th) t.join();
    }
    if (!ga_saved.empty()) setenv("BXDECAY0_DBD_GA_DATA_DIR", ga_saved.c_str(), 1);
    else unsetenv("BXDECAY0_DBD_GA_DATA_DIR");
    generator_body(3, true, "Se82", 0, 22, true); // and a gA generator with its dataset directory back in place
  } else if (group == 7) {
    // gA samplers used directly, rejection method, on tables of their own, at the same time
    auto direct = [](int tid, const char * nuc, bxdecay0::dbd_gA::process_type pr, bxdecay0::dbd_gA::shooting_type sh) {
      try {
        bxdecay0::dbd_gA g;
        g.set_nuclide(nuc);
        g.set_process(pr);
        g.set_shooting(sh);
        g.initialize();
        Rnd r;
        r.phase = 300 + tid;
        for (int k = 0; k < 200; k++) {
          double e1, e2;
          g.shoot_e1_e2(r, e1, e2);
        }
      } catch (std::exception & e) {
        fprintf(stderr, "UNEXPECTED-EXCEPTION dbd_gA %s: %s\n", nuc, e.what());
      }
    };
    std::vector<std::thread> th;
    th.emplace_back(direct, 0, "Mo100", bxdecay0::dbd_gA::PROCESS_G0, bxdecay0::dbd_gA::SHOOTING_REJECTION);
    th.emplace_back(direct, 1, "Se82", bxdecay0::dbd_gA::PROCESS_G2, bxdecay0::dbd_gA::SHOOTING_REJECTION);
    th.emplace_back(direct, 2, "Nd150", bxdecay0::dbd_gA::PROCESS_G4, bxdecay0::dbd_gA::SHOOTING_REJECTION);
    th.emplace_back(direct, 3, "Cd116", bxdecay0::dbd_gA::PROCESS_G22, bxdecay0::dbd_gA::SHOOTING_INVERSE_TRANSFORM_METHOD);
    for (auto & t : th) t.join();
  } else if (group == 5) {
    // initialisations that run the nested quadratures (dgmlt1 over dgmlt2, gauss) at once: every mode whose spectrum needs
    // them (4, 5, 6, 8, 13, 15, 16, 19, and 10 with gauss alone), with and without an energy window
    std::vector<std::thread> th;
    th.emplace_back([] { generator_body(0, true, "Mo100", 0, 4, false, -1.0, 2.0, 3.0); });
    th.emplace_back([] { generator_body(1, true, "Se82", 0, 5, false); });
    th.emplace_back([] { generator_body(2, true, "Nd150", 0, 6, false, -1.0, 0.5, 2.5); });
    th.emplace_back([] { generator_body(3, true, "Mo100", 1, 8, false); });
    th.emplace_back([] { generator_body(4, true, "Ca48", 0, 13, false); });
    th.emplace_back([] { generator_body(5, true, "Xe136", 0, 19, false, -1.0, 1.0, 2.0); });
    th.emplace_back([] { generator_body(6, true, "Mo100", 1, 16, false); });
    th.emplace_back([] { generator_body(7, true, "Te130", 0, 15, false); });
    th.emplace_back([] { generator_body(8, true, "Cd106", 0, 10, false, -1.0, 0.25, 0.75); });
    for (auto & t : th) t.join();
  } else
  {
    std::vector<std::thread> th;
    th.emplace_back([] { bxdecay0::decay0_fermi(44., 1.0); });
    th.emplace_back([] { bxdecay0::decay0_gauss(f_smooth, 0, 1, 1e-4, nullptr); });
    th.emplace_back([] {
      Rnd r;
      bxdecay0::event ev;
      bxdecay0::bbpars pars;
      int err = 0;
      bxdecay0::genbbsub(r, ev, 2, "Co60", -1, -1, -1, err, pars);
      bxdecay0::genbbsub(r, ev, 2, "Co60", -1, -1, 1, err, pars);
    });
    th.emplace_back([] { generator_body(9, true, "Mo100", 0, 1, false); });
    for (auto & t : th) t.join();
  }
  for (int rep = 0; rep < reps; rep++) {
    std::vector<std::thread> th;
    th.emplace_back([] { generator_body(0, true, "Cd106", 0, 10, false); });
    th.emplace_back([] { generator_body(1, true, "Nd148", 5, 4, false); });
    th.emplace_back([] { generator_body(2, false, "Co60", 0, 0, false); });
    th.emplace_back([] { generator_body(3, false, "Bi207+Pb207m", 0, 0, false); });
    th.emplace_back([] { generator_body(4, true, "Mo100", 0, 21, true); }); // gA (dataset through BXDECAY0_DBD_GA_DATA_DIR)
    th.emplace_back([] { generator_body(5, true, "Se82", 0, 22, true); });
    th.emplace_back([] { generator_body(6, true, "Ru96", 0, 10, false); });
    th.emplace_back([] { generator_body(7, true, "Zr96", 0, 20, false); });
    th.emplace_back([] { generator_body(8, false, "Sr90", 0, 0, false); });   // 1st-forbidden-unique beta shapes share helpers
    th.emplace_back([] { generator_body(9, false, "K42", 0, 0, false); });
    th.emplace_back([] { generator_body(10, false, "Cs137+Ba137m", 0, 0, false); });
    th.emplace_back([] { generator_body(11, false, "Ar39", 0, 0, false); });
    th.emplace_back([] { generator_body(15, false, "K40", 0, 0, false); });         // every family of beta-shape routines from two threads
    th.emplace_back([] { generator_body(16, false, "Kr85", 0, 0, false); });
    th.emplace_back([] { generator_body(17, false, "Rb87", 0, 0, false); });
    th.emplace_back([] { generator_body(18, false, "Eu152", 0, 0, false); });
    th.emplace_back([] { generator_body(19, false, "Bi214+Po214", 0, 0, false); });
    th.emplace_back([] { generator_body(12, false, "Co60", 0, 0, false, 5.0); });   // each with its own direction lock
    th.emplace_back([] { generator_body(13, false, "Co60", 0, 0, false, 60.0); });
    th.emplace_back([] { generator_body(14, true, "Mo100", 0, 1, false, 20.0); });
    th.emplace_back([] { generator_body(20, true, "Mo100", 0, 4, false, -1.0, 2.0, 3.0); }); // nested quadratures from several threads
    th.emplace_back([] { generator_body(21, true, "Se82", 0, 5, false); });
    th.emplace_back([] { generator_body(22, true, "Mo100", 1, 16, false); });
    for (auto & t : th) t.join();
  }
  printf("done %d repetitions\n", reps);
  return 0;
}
