// dx — deviate-choice explorer (DESIGN 1.2): enumerates executions of one decay configuration over
// forced deviate positions, replays every execution on the reference model (transpiled Fortran,
// when the reference knows the configuration) and on the port, and evaluates the oracles of
// C01/C02 (model agreement), C03 (energy budget / window), C04 (well-formedness, bounded work),
// C08 (sanitizer reports, when linked against the asan build).
//
//   dx --cfgfile F --out R.jsonl [--jobs N] [--layers A,B1,B2,C] [--phase P] [--oracle ref,inv]
//      [--api genbbsub|generator] [--ccap N] [--deadline S]
//   dx --replay FILE
//
// One forked child per configuration (the model has process-global state; fatal outcomes of the
// port are contained); results are JSON lines.
#include "dxcore.hpp"

static std::map<std::string, Config> g_pre; // configuration key -> predecessor (re-initialisation chains)
// collision histories: before every port shot of the configuration, one shot of another configuration (own working set,
// same thread) with recorded deviates; the exploration starts from a recorded execution of the configuration itself
struct Hist { Config cfg; Forced forced, start; };
static std::map<std::string, Hist> g_hist;
static Forced parse_forced(const std::string & t)
{
  Forced f;
  if (t == "-") return f;
  std::stringstream ss(t);
  std::string kv;
  while (std::getline(ss, kv, ',')) {
    size_t c = kv.find(':');
    if (c != std::string::npos) f[(size_t)atol(kv.substr(0, c).c_str())] = atof(kv.substr(c + 1).c_str());
  }
  return f;
}

// ---------------------------------------------------------------- exploration state
struct Violation {
  std::string oracle, why;
  Forced forced;
  double margin;
};

struct Explorer {
  Config cfg;
  RefSide R;
  PortSide P;
  bool use_ref = true, use_inv = false;
  double tau = 1e-6;
  long nonrobust = 0;
  bool in_sweep = false;
  long execs = 0, model_runs = 0, mism = 0, amb = 0, horizon = 0, both_horizon = 0, edges = 0, nthr = 0, validated = 0, san = 0;
  long ccap = 200000;
  bool ccap_hit = false;
  double deadline = 1e18;
  bool deadline_hit = false;
  std::set<uint32_t> expanded;
  std::vector<double> literals;
  std::map<uint32_t, std::vector<double>> site_roots;
  std::vector<double> last_roots;
  std::set<uint32_t> swept;
  PortSide * Hs = nullptr; // history working set (collision histories)
  Forced hist_forced;
  bool collect_calls = false;
  int dense = 0;
  struct CallInfo { int unit; std::vector<double> args; bool has_first = false, has_last = false; Forced first, last; };
  std::map<std::string, CallInfo> calls;
  uint32_t last_ctx_for_sweep = 0;
  long sweep_execs = 0;
  std::set<uint64_t> sigs;
  std::vector<Violation> viols;
  std::vector<std::string> samples;
  InvStats inv;
  std::map<std::string, long> layer_execs;

  static double now()
  {
    return std::chrono::duration<double>(std::chrono::steady_clock::now().time_since_epoch()).count();
  }
  bool out_of_time()
  {
    if (now() > deadline) deadline_hit = true;
    return deadline_hit;
  }

  void add_violation(const std::string & oracle, const std::string & why, const Forced & f, double margin)
  {
    // keep the first few per (oracle, why-class); a violation is keyed by oracle+why prefix
    auto cls = [](const std::string & w) {
      std::string o;
      for (char ch : w)
        if (!((ch >= '0' && ch <= '9') || ch == '.' || ch == '-')) o += ch;
      return o;
    };
    int same = 0;
    for (auto & v : viols)
      if (v.oracle == oracle && cls(v.why) == cls(why)) same++;
    if (same >= 2) return;
    if (viols.size() < 40) viols.push_back({oracle, why, f, margin});
  }

  struct Out {
    Ev r, p;
    std::vector<uint32_t> ctx;
    std::vector<int> sites;
    double margin = 1e300;
    std::string diff; // "" equal
    bool robust = true;
  };

  // run one execution on model (if any) and port, apply the oracles
  Out exec(const Forced & f, bool count = true)
  {
    Out o;
    long san0 = g_san_reports;
    if (use_ref && R.available) {
      o.r = R.shot(f);
      model_runs++;
      o.ctx.assign(d0ref::mon.draw_ctx.begin(), d0ref::mon.draw_ctx.end());
      o.sites = d0ref::mon.draw_sites;
      o.margin = d0ref::mon.min_margin;
      std::vector<d0ref::CallRec> model_calls;
      if (collect_calls) model_calls = d0ref::mon.calls;
      if (Hs) Hs->shot(hist_forced);
      o.p = P.shot(f, false);
      o.diff = compare(cfg, o.r, o.p);
      // rejection tests of the beta samplers: 2e-4 (short constants of the reference inside the Fermi function)
      // (a near-tie inside the golden-section search keeps either half of a bracket that still contains the maximum of a
      // unimodal spectrum: the located maximum moves by O(curvature x tolerance^2) ~ 1e-5; 5e-4 is demanded then)
      double tau_shape = d0ref::mon.min_qmargin < 1e-6 ? 5e-4 : 2e-4;
      // three margin classes: branch decisions and other literal tests (1e-6), the double-beta kernel's tests against its
      // tabulated / integrated spectra (tau = 10 x the measured table noise of this configuration), beta-sampler shapes
      // when the in-place clamp of fermi() fired (a lepton below 50 eV) the reference's own value of the spectrum function
      // is ambiguous: its expression uses the clamped variable on both sides of the call, in unspecified order
      // (how much depends on the other factors: (e0-e1-e2)^n and, in modes 8 and 16, (e1-e2)^2 move by n x 50 eV/(e0-e1)
      // resp. 2 x 50 eV/|e1-e2|, several per cent for a first lepton of a few keV; 2e-3 was not enough - the thorough
      // tier of C02 showed disagreements up to a margin of 2.3e-3 in exactly these two modes: 0.25 is demanded)
      double tau_table = d0ref::mon.clamp_fired ? 0.25 : tau;
      o.robust = o.margin >= 1e-6 && d0ref::mon.min_tmargin >= tau_table && d0ref::mon.min_smargin >= tau_shape;
      o.margin = std::min(std::min(o.margin, d0ref::mon.min_smargin), d0ref::mon.min_tmargin);
      if (!o.robust && count && !in_sweep) { nonrobust++; if (getenv("DX_DEBUG")) fprintf(stderr, "nonrobust: margin=%g line=%d tmargin=%g smargin=%g qmargin=%g forced=%s\n", d0ref::mon.min_margin, d0ref::mon.min_margin_line, d0ref::mon.min_tmargin, d0ref::mon.min_smargin, d0ref::mon.min_qmargin, vx::forced_to_json(f).c_str()); } // (ladder and sweep probes sit next to a threshold on purpose)
      validated++;
      if (collect_calls && !model_calls.empty() && o.robust) {
        auto keyof = [](const d0ref::CallRec & c) {
          std::string k = std::to_string(c.unit);
          char b[40];
          for (double a : c.args) { snprintf(b, sizeof b, ":%.17g", a); k += b; }
          return k;
        };
        const auto & fc = model_calls.front();
        const auto & lc = model_calls.back();
        auto & a = calls[keyof(fc)];
        a.unit = fc.unit; a.args = fc.args;
        if (!a.has_first) { a.has_first = true; a.first = f; }
        auto & b = calls[keyof(lc)];
        b.unit = lc.unit; b.args = lc.args;
        if (!b.has_last) { b.has_last = true; b.last = f; }
      }
    } else {
      if (Hs) Hs->shot(hist_forced);
      o.p = P.shot(f, true);
      o.ctx = P.ctx;
      // without a model the return-address chain is all there is, and the optimiser merges the call sites of
      // sibling branches (cross-jumping): refine each context with the previous context and the decision bucket
      // of the previous deviate = its rank among the thresholds discovered at the previous site (none for
      // continuous draws, so only real decisions split contexts)
      if (!literals.empty()) {
        vx::Source src{&f, PHASE};
        uint32_t prev_refined = 0, prev_raw = 0;
        for (size_t i = 0; i < o.ctx.size(); i++) {
          uint32_t raw = o.ctx[i];
          uint32_t refined = raw;
          if (i > 0) {
            uint32_t bucket = 0;
            auto it = site_roots.find(prev_refined);
            if (it != site_roots.end()) bucket = (uint32_t)(std::upper_bound(it->second.begin(), it->second.end(), src.at(i - 1)) - it->second.begin());
            refined = ((raw ^ (prev_raw * 2654435761u)) * 16777619u) ^ (bucket * 40503u + 1u);
          }
          o.ctx[i] = refined;
          prev_refined = refined;
          prev_raw = raw;
        }
      }
    }
    if (count) {
      execs++;
      if (o.p.horizon || o.r.horizon) horizon++;
      uint64_t h = 1469598103934665603ULL;
      for (auto cx : o.ctx) h = (h ^ cx) * 1099511628211ULL;
      for (auto cd : o.p.code) h = (h ^ (uint64_t)cd) * 1099511628211ULL;
      if (sigs.insert(h).second && samples.size() < 3) {
        std::string s = "{\"forced\":" + vx::forced_to_json(f) + ",\"draws\":" + std::to_string(o.p.ndraws) + ",\"codes\":[";
        for (size_t k = 0; k < o.p.code.size(); k++) s += (k ? "," : "") + std::to_string(o.p.code[k]);
        s += "]}";
        samples.push_back(s);
      }
    }
    if (g_san_reports != san0) {
      san += g_san_reports - san0;
      add_violation("san", "sanitizer report during shot", f, o.margin);
    }
    if (use_inv) {
      std::string w = check_c04(cfg, o.p, inv);
      // under a squeezed default stream a rejection loop whose acceptance region the squeeze excludes turns for ever on both
      // sides: the model decides whether a horizon is the reference's own (not judged, counted) or the port's alone
      // (and only a model execution whose every decision margin is clear binds the port to the same path: a horizon on the
      //  port alone after a non-robust model execution is a rejection loop entered through a near-tie - not judged, counted)
      if (o.p.horizon && use_ref && R.available && !(vx::SQ_LO == 0.0 && vx::SQ_HI == 1.0)) {
        if (o.r.horizon) { w.clear(); both_horizon++; }
        else if (!o.robust) { w.clear(); amb++; }
      }
      if (!w.empty()) add_violation("c04", w, f, o.margin);
      w = check_c03(cfg, o.p, P, inv);
      if (!w.empty()) add_violation("c03", w, f, o.margin);
    }
    return o;
  }

  // settle a model/port disagreement: violation if robust, ambiguous otherwise
  void judge(const Out & o, const Forced & f)
  {
    if (o.diff.empty()) return;
    if (o.diff.compare(0, 10, "MODELFAULT") == 0) {
      amb++;
      return;
    }
    if (o.robust) {
      mism++;
      add_violation("ref", o.diff, f, o.margin);
    } else {
      amb++;
      if (getenv("DX_DEBUG")) fprintf(stderr, "ambiguous: %s forced=%s margin=%g smargin=%g qmargin=%g\n", o.diff.c_str(), vx::forced_to_json(f).c_str(), d0ref::mon.min_margin, d0ref::mon.min_smargin, d0ref::mon.min_qmargin);
    }
  }

  // ---- threshold discovery on the model: roots of the affine comparisons that follow draw i
  struct Root {
    double u;
    bool literal;
    int cls = 0; // 1: rejection test of a beta sampler (shape margin class)
  };
  std::vector<Root> roots_at(Forced f, size_t i, double v)
  {
    std::vector<Root> out;
    double h = (v < 0.5 ? 1e-4 : -1e-4);
    f[i] = v;
    R.shot(f, true, (int)i);
    auto c1 = d0ref::mon.cmps;
    f[i] = v + h;
    R.shot(f, true, (int)i);
    auto & c2 = d0ref::mon.cmps;
    model_runs += 2;
    for (size_t k = 0; k < c1.size() && k < c2.size(); k++) {
      if (c1[k].line != c2[k].line) break;
      double g1 = c1[k].a - c1[k].b, g2 = c2[k].a - c2[k].b;
      if (g1 == g2) continue;
      double u = v - g1 * h / (g2 - g1);
      if (u > 1e-13 && u < 1 - 1e-13) out.push_back({u, c1[k].b == c2[k].b && c1[k].a != c2[k].a, c1[k].cls});
    }
    return out;
  }
  std::vector<Root> discover(const Forced & base, size_t i)
  {
    std::vector<Root> roots;
    std::vector<double> root_from;
    std::deque<double> work = {0.999999, 0.5, 1e-6};
    int iter = 0;
    while (!work.empty() && iter < 160) {
      double v = work.front();
      work.pop_front();
      iter++;
      for (auto & r : roots_at(base, i, v)) {
        // the affine solve carries an absolute error of ~1e-12 x (distance of the probe point from the root): an estimate
        // from a far probe is only good to ~1e-7 relative for a root at 1e-5. The same threshold solved again from a
        // nearer probe replaces the stored estimate (the finest probe is 1e-7: roots closer than that are one threshold).
        bool isnew = true;
        for (size_t q = 0; q < roots.size(); q++)
          if (std::fabs(roots[q].u - r.u) <= 1e-6 * r.u + 1e-11) {
            isnew = false;
            if (std::fabs(v - r.u) < root_from[q]) { roots[q].u = r.u; root_from[q] = std::fabs(v - r.u); }
          }
        if (!isnew) continue;
        roots.push_back(r);
        root_from.push_back(std::fabs(v - r.u));
        double d = r.literal ? 1e-7 : 1e-3;
        work.push_back(r.u * (1 - d));
        work.push_back(std::min(r.u * (1 + d), 1 - 1e-13));
      }
    }
    std::sort(roots.begin(), roots.end(), [](const Root & a, const Root & b) { return a.u < b.u; });
    if (roots.size() > 64) { // evenly thinned; the cap is reported through nthr vs. edges
      std::vector<Root> t;
      for (size_t k = 0; k < 64; k++) t.push_back(roots[k * roots.size() / 64]);
      roots.swap(t);
    }
    return roots;
  }

  // ---- threshold discovery without a model: bisection on the port's behaviour signature
  uint64_t port_sig(const Forced & f)
  {
    Ev e = P.shot(f, true);
    uint64_t h = 1469598103934665603ULL;
    for (auto cx : P.ctx) h = (h ^ cx) * 1099511628211ULL;
    for (size_t k = 0; k < e.code.size(); k++) {
      h = (h ^ (uint64_t)e.code[k]) * 1099511628211ULL;
      // photon energies are discrete in every scheme (gamma / X-ray lines): they tell K, L and M conversion apart
      if (e.code[k] == 1) h = (h ^ (uint64_t)std::llround(kin(1, e.px[k], e.py[k], e.pz[k]) * 1e7)) * 1099511628211ULL;
    }
    h = (h ^ (e.horizon ? 7 : 1)) * 1099511628211ULL;
    return h;
  }
  std::vector<Root> discover_port(const Forced & base, size_t i)
  {
    static const double grid[] = {1e-9, 1e-6, 1e-4, 1e-3, 0.003, 0.01, 0.02, 0.05, 0.1, 0.15, 0.2, 0.25, 0.3, 0.35, 0.4, 0.45, 0.5,
                                  0.55, 0.6, 0.65, 0.7, 0.75, 0.8, 0.85, 0.9, 0.95, 0.98, 0.99, 0.997, 0.999, 0.9999, 1 - 1e-6, 1 - 1e-9};
    const int G = sizeof grid / sizeof grid[0];
    std::vector<Root> roots;
    // decision literals scanned from the nuclide's source file (branching ratios compared against a draw):
    // a branch narrower than the grid spacing is reached through its literal
    Forced f = base;
    for (double l : literals) {
      f[i] = l * (1 - 1e-6);
      uint64_t s1 = port_sig(f);
      f[i] = l * (1 + 1e-6);
      if (port_sig(f) != s1) roots.push_back({l, true});
    }
    size_t nlit = roots.size();
    std::vector<uint64_t> sg(G);
    for (int k = 0; k < G; k++) {
      f[i] = grid[k];
      sg[k] = port_sig(f);
    }
    for (int k = 0; k + 1 < G && roots.size() < 24 + nlit; k++) {
      if (sg[k] == sg[k + 1]) continue;
      double lo = grid[k], hi = grid[k + 1];
      uint64_t slo = sg[k];
      for (int it = 0; it < 40 && (hi - lo) > 1e-10 * hi; it++) {
        double mid = 0.5 * (lo + hi);
        f[i] = mid;
        if (port_sig(f) == slo) lo = mid;
        else hi = mid;
      }
      roots.push_back({0.5 * (lo + hi), true});
    }
    return roots;
  }

  // alphabet of one choice point: tails, a mid value and both sides of every discovered threshold,
  // each probe settled with the ladder of DESIGN 1.2 when a model is available
  std::vector<double> alphabet(const Forced & base, size_t i)
  {
    std::vector<double> al = {0.5};
    // optional dense interior grid for continuous draws (C04: branches the port samples differently from the model - the
    // documented revisions - have no model-side thresholds to steer by)
    for (int k = 0; k < dense; k++) al.push_back((k + 0.5) / dense);
    bool model = use_ref && R.available;
    if (!model) { al.push_back(1e-12); al.push_back(1 - 1e-12); }
    if (model) {
      // a tail value may sit next to a threshold at the very end of the range (a zero-width last branch, an
      // `E < 50 eV' test): such an execution cannot be judged, so the same tail is also explored 4 tau inside
      for (double t : {1e-12, 1 - 1e-12}) {
        Forced g = base;
        g[i] = t;
        Out o = exec(g, false);
        // (the judgeable variant first: a site reached through both is then expanded under the judgeable prefix)
        if (!o.robust) al.push_back(t < 0.5 ? 4e-6 : 1 - 4e-6);
        al.push_back(t);
      }
    }
    std::vector<Root> roots = model ? discover(base, i) : discover_port(base, i);
    nthr += (long)roots.size();
    last_roots.clear();
    for (auto & r : roots) last_roots.push_back(r.u);
    std::sort(last_roots.begin(), last_roots.end());
    for (size_t k = 0; k < roots.size(); k++) {
      auto & r = roots[k];
      for (int side = -1; side <= 1; side += 2) {
        double delta = model ? 1e-7 : 1e-6;
        double v = r.u * (1 + side * delta);
        if (model) {
          // ladder: move away from the threshold while the probe disagrees and is not robust
          for (; delta <= 1.0001e-2; delta *= 10) {
            v = r.u * (1 + side * delta);
            if (!(v > 0 && v < 1)) break;
            Forced g = base;
            g[i] = v;
            Out o = exec(g, false);
            if (o.diff.empty() || o.robust) break;
          }
          // the representative that is explored further must itself be clear of this threshold, or every execution
          // that inherits it (the whole rare branch behind it) is non-robust and can only ever be "ambiguous":
          // 4 tau (margin = delta/2) resp. 2e-3 for the shape class, but never beyond the middle of the interval
          // to the neighbouring threshold
          double dpush = std::max(delta, r.cls == 1 ? 2e-3 : (r.cls == 3 ? std::max(4 * tau, 4e-6) : 4e-6));
          double vp = r.u * (1 + side * dpush);
          double nb = side > 0 ? (k + 1 < roots.size() ? roots[k + 1].u : 1.0) : (k > 0 ? roots[k - 1].u : 0.0);
          double mid = 0.5 * (r.u + nb);
          if ((side > 0 && vp > mid) || (side < 0 && vp < mid)) vp = mid;
          if (vp > 0 && vp < 1) v = vp;
        }
        if (v > 0 && v < 1) al.push_back(v);
      }
    }
    // ---- shape sweep (the "function-level companion" of DESIGN C01): a computed threshold (rejection test against a
    // spectrum/shape function) is a function of the preceding continuous draw; a wrong table entry or shape constant
    // only shows where that draw lands in the affected range. Sweep the preceding draw over a 24-point grid and probe both
    // sides of the re-discovered threshold at each point (ladder as above); not pushed to the worklist.
    if (model && i > 0 && !swept.count(last_ctx_for_sweep)) {
      // does the threshold set move with the preceding draw? (one alternate value decides)
      bool computed = false;
      if (!roots.empty()) {
        Forced b1 = base;
        double cur = base.count(i - 1) ? base.at(i - 1) : vx::squeezed_value(PHASE, i - 1);
        b1[i - 1] = cur < 0.5 ? cur + 0.37 : cur - 0.37;
        auto alt = discover(b1, i);
        if (alt.size() != roots.size()) computed = true;
        else
          for (size_t k = 0; k < alt.size(); k++)
            if (std::fabs(alt[k].u - roots[k].u) > 1e-9 * roots[k].u) computed = true;
      }
      if (getenv("DX_DEBUG")) fprintf(stderr, "sweep? i=%zu ctx=%08x roots=%zu computed=%d\n", i, last_ctx_for_sweep, roots.size(), (int)computed);
      if (computed) {
        swept.insert(last_ctx_for_sweep);
        in_sweep = true;
        for (int g = 0; g < 24; g++) {
          Forced b2 = base;
          b2[i - 1] = (g + 0.5) / 24.0;
          for (auto & r2 : discover(b2, i)) {
            for (int side = -1; side <= 1; side += 2) {
              for (double delta = 1e-7; delta <= 1.0001e-2; delta *= 10) {
                double v = r2.u * (1 + side * delta);
                if (!(v > 0 && v < 1)) break;
                Forced g2 = b2;
                g2[i] = v;
                Out o = exec(g2, true);
                sweep_execs++;
                if (o.diff.empty()) break;
                if (o.robust) { judge(o, g2); break; }
              }
            }
          }
        }
        in_sweep = false;
      }
    }
    return al;
  }

  // ---- layer A: edge coverage with site memo
  void layer_A()
  {
    std::deque<Forced> work;
    work.push_back(Forced());
    long before = execs;
    while (!work.empty()) {
      if (out_of_time()) break;
      Forced f = work.front();
      work.pop_front();
      Out o = exec(f);
      judge(o, f);
      if (o.p.horizon || o.r.horizon || o.p.threw) continue;
      for (size_t i = 0; i < o.ctx.size(); i++) {
        if (expanded.count(o.ctx[i])) continue;
        if ((long)expanded.size() >= ccap) {
          ccap_hit = true;
          break;
        }
        expanded.insert(o.ctx[i]);
        Forced base;
        for (auto & kv : f)
          if (kv.first < i) base[kv.first] = kv.second;
        last_ctx_for_sweep = o.ctx[i];
        for (double a : alphabet(base, i)) {
          Forced g = base;
          g[i] = a;
          work.push_back(g);
          edges++;
        }
        if (!literals.empty()) site_roots[o.ctx[i]] = last_roots;
      }
    }
    layer_execs["A"] += execs - before;
  }

  // ---- layer B: every execution with at most d forced positions, thresholds re-discovered per prefix
  void layer_B_rec(const Forced & f, size_t from, int d)
  {
    if (out_of_time()) return;
    Out o = exec(f);
    judge(o, f);
    if (d == 0 || o.p.horizon || o.r.horizon || o.p.threw) return;
    size_t n = o.ctx.size();
    for (size_t i = from; i < n; i++) {
      Forced base = f;
      last_ctx_for_sweep = o.ctx[i];
      for (double a : alphabet(base, i)) {
        Forced g = base;
        g[i] = a;
        edges++;
        layer_B_rec(g, i + 1, d - 1);
        if (deadline_hit) return;
      }
    }
  }
  // ---- layer H: around one recorded execution (collision histories): every position of it gets its alphabet
  // (tails, mid, both sides of every threshold, shape sweep), all other positions keep the recorded values
  void layer_H(const Forced & start)
  {
    long before = execs;
    Out o = exec(start);
    judge(o, start);
    if (!(o.p.horizon || o.r.horizon || o.p.threw)) {
      for (size_t i = 0; i < o.ctx.size(); i++) {
        if (out_of_time()) break;
        last_ctx_for_sweep = o.ctx[i];
        for (double a : alphabet(start, i)) {
          Forced g = start;
          g[i] = a;
          edges++;
          Out q = exec(g);
          judge(q, g);
        }
      }
    }
    layer_execs["H"] += execs - before;
  }
  void layer_B(int d)
  {
    long before = execs;
    layer_B_rec(Forced(), 0, d);
    layer_execs[std::string("B") + std::to_string(d)] += execs - before;
  }

  // ---- layer C: all discrete paths — DFS over choice points owning at least one literal threshold
  long c_cap = 200000;
  std::map<uint32_t, std::vector<Root>> lit_memo;
  bool c_exhaustive = true;
  void layer_C_rec(const Forced & f, size_t from)
  {
    if (out_of_time()) { c_exhaustive = false; return; }
    if (execs - c_before >= c_cap) { c_exhaustive = false; return; }
    // rejection tests against a fixed operand look like literal thresholds: forcing "reject" again and again would
    // never end, so a path carries at most 12 forced positions (a binding cap is reported as not exhaustive)
    if (f.size() > 12) { c_exhaustive = false; return; }
    Out o = exec(f);
    judge(o, f);
    if (o.p.horizon || o.r.horizon || o.p.threw) return;
    for (size_t i = from; i < o.ctx.size(); i++) {
      // literal thresholds (branching ratios: p = 100*u against constants) depend on the site only: memo per site context
      auto mit = lit_memo.find(o.ctx[i]);
      if (mit == lit_memo.end()) {
        std::vector<Root> l0;
        for (auto & r : discover(f, i))
          if (r.literal) l0.push_back(r);
        mit = lit_memo.emplace(o.ctx[i], l0).first;
      }
      const std::vector<Root> & lr = mit->second; // sorted by discover()
      if (lr.empty()) continue;
      std::vector<double> lit;
      for (auto & r : lr) lit.push_back(r.u);
      // interval representatives: inside each side of every literal threshold, clear of it by the margin of its class
      // (so that the path can be judged), but never beyond the middle of the interval
      std::vector<double> reps;
      for (size_t k = 0; k < lr.size(); k++) {
        double d = lr[k].cls == 1 ? 2e-3 : (lr[k].cls == 3 ? std::max(4 * tau, 1e-5) : 1e-5);
        double lo = k > 0 ? 0.5 * (lr[k - 1].u + lr[k].u) : 0.5 * lr[k].u;
        double hi = k + 1 < lr.size() ? 0.5 * (lr[k].u + lr[k + 1].u) : 0.5 * (lr[k].u + 1.0);
        reps.push_back(std::max(lr[k].u * (1 - d), lo));
        reps.push_back(std::min(lr[k].u * (1 + d), hi));
      }
      double cur = vx::Source{&f, PHASE}.at(i);
      // representative intervals: drop the one the current value already lies in
      auto interval = [&](double v) { return (int)(std::upper_bound(lit.begin(), lit.end(), v) - lit.begin()); };
      std::set<int> done = {interval(cur)};
      for (double v : reps) {
        int iv = interval(v);
        if (done.count(iv)) continue;
        done.insert(iv);
        Forced g = f;
        g[i] = v;
        edges++;
        layer_C_rec(g, i + 1);
        if (!c_exhaustive && (deadline_hit || execs - c_before >= c_cap)) return;
      }
    }
  }
  long c_before = 0;
  void layer_C()
  {
    if (!(use_ref && R.available)) return;
    c_before = execs;
    layer_C_rec(Forced(), 0);
    layer_execs["C"] += execs - c_before;
  }
};

// ---------------------------------------------------------------- JSON helpers
static std::string jstr(const std::string & s)
{
  std::string o = "\"";
  for (char ch : s) {
    if (ch == '"' || ch == '\\') { o += '\\'; o += ch; }
    else if (ch == '\n') o += "\\n";
    else if ((unsigned char)ch < 32) o += ' ';
    else o += ch;
  }
  return o + "\"";
}
static std::string jnum(double v)
{
  if (!std::isfinite(v)) return "null";
  char b[40];
  snprintf(b, sizeof b, "%.12g", v);
  return b;
}
static std::string ev_json(const Ev & e)
{
  std::string s = "{\"ndraws\":" + std::to_string(e.ndraws) + ",\"horizon\":" + (e.horizon ? "true" : "false") + ",\"threw\":" + (e.threw ? "true" : "false")
                  + ",\"what\":" + jstr(e.what) + ",\"particles\":[";
  for (size_t k = 0; k < e.code.size(); k++) {
    if (k) s += ",";
    s += "[" + std::to_string(e.code[k]) + "," + jnum(e.t[k]) + "," + jnum(e.px[k]) + "," + jnum(e.py[k]) + "," + jnum(e.pz[k]) + "]";
  }
  return s + "]}";
}

// ---------------------------------------------------------------- one configuration
struct Opts {
  std::string layers = "A";
  bool ref = true, inv = false, via_gen = false;
  long ccap = 200000;
  double deadline = 600;
  double etol = 0.003;
  int phases = 1;
  std::string litdir;
  bool calls = false;
  long c_cap = 200000;
  int dense = 0;
};

static std::string cfg_json(const Config & c)
{
  return "{\"cat\":" + jstr(c.cat) + ",\"name\":" + jstr(c.name) + ",\"level\":" + std::to_string(c.level) + ",\"mode\":" + std::to_string(c.mode) + ",\"e1\":"
         + jnum(c.e1) + ",\"e2\":" + jnum(c.e2) + (c.hist.empty() ? std::string() : ",\"hist\":" + jstr(c.hist)) + (c.pre_raw.empty() ? std::string() : ",\"pre\":" + jstr(c.pre_raw))
         + ((vx::SQ_LO == 0.0 && vx::SQ_HI == 1.0) ? std::string() : ",\"squeeze\":\"" + jnum(vx::SQ_LO) + "," + jnum(vx::SQ_HI) + "\"") + "}";
}

static std::string run_config(const Config & c, const Opts & o)
{
  double t0 = Explorer::now();
  Explorer X;
  X.cfg = c;
  X.use_ref = o.ref;
  X.use_inv = o.inv;
  X.ccap = o.ccap;
  X.c_cap = o.c_cap;
  X.deadline = t0 + o.deadline;
  X.P.via_gen = o.via_gen;
  E_TOL = o.etol;
  if (!o.litdir.empty()) {
    std::string base = c.name.substr(0, c.name.find('+'));
    std::ifstream lf(o.litdir + "/" + base + ".lit");
    double v;
    while (lf >> v)
      if (v > 0 && v < 1) X.literals.push_back(v);
    std::sort(X.literals.begin(), X.literals.end());
  }
  std::string initdiff;
  double table_rel = 0;
  int ier = -1;
  auto pre = g_pre.find(c.key());
  if (pre != g_pre.end() && !o.via_gen) {
    // re-initialisation chain: the predecessor first, on the same objects
    if (o.ref) X.R.init(pre->second, PHASE);
    X.P.init(pre->second, PHASE);
  }
  // the single-call form of the entry point (initialise and generate one event in one call, istart = 0) on objects of its own,
  // before anything else is initialised: same event and same deviates as the model's single call
  std::string onecall_diff;
  bool onecall_done = false;
  if (o.ref && !o.via_gen && pre == g_pre.end() && g_hist.find(c.key()) == g_hist.end() && (vx::SQ_LO == 0.0 && vx::SQ_HI == 1.0)) {
    Ev r1 = X.R.one_call(c, PHASE);
    if (r1.err == 0 && !r1.threw && !r1.horizon && !(c.dbd() && c.mode == 20 && c.level >= 1)) {
      Ev p1 = PortSide::one_call(c, PHASE);
      onecall_done = true;
      onecall_diff = compare(c, r1, p1);
      if (onecall_diff.empty() && r1.ndraws != p1.ndraws) onecall_diff = "deviates consumed " + std::to_string(r1.ndraws) + " vs " + std::to_string(p1.ndraws);
    }
  }
  PortSide histside;
  auto hi = g_hist.find(c.key());
  if (hi != g_hist.end()) {
    // the history working set is initialised first, like a job that mixes several nuclides in one thread
    if (histside.init(hi->second.cfg, PHASE) == 0) {
      X.Hs = &histside;
      X.hist_forced = hi->second.forced;
    }
  }
  X.collect_calls = o.calls;
  X.dense = o.dense;
  d0ref::mon.log_calls = o.calls;
  if (o.ref) ier = X.R.init(c, PHASE);
  int perr = X.P.init(c, PHASE);
  bool port_ok = (perr == 0);
  std::ostringstream js;
  js << "{\"config\":" << cfg_json(c) << ",\"pid\":" << (long)getpid() << ",\"key\":" << jstr(c.key()) << ",\"ref_available\":" << (X.R.available ? "true" : "false") << ",\"ref_ier\":" << ier
     << ",\"port_err\":" << perr << ",\"port_init_what\":" << jstr(X.P.init_what) << ",\"single_call_compared\":" << (onecall_done ? "true" : "false");
  // documented difference of the model (DESIGN C06): for mode 20 the Fortran silently coerces the
  // level to 0; README: quadruple beta "only to the ground state" -> the expected answer is reject
  bool model_accepts = X.R.available;
  if (c.dbd() && c.mode == 20 && c.level >= 1) { model_accepts = false; X.R.available = false; }
  if (o.ref && model_accepts != port_ok) {
    X.add_violation("ref", std::string("acceptance differs: model ") + (X.R.available ? "accepts" : "rejects") + ", port " + (port_ok ? "accepts" : "rejects"), Forced(), 1);
  }
  if (onecall_done && !onecall_diff.empty() && onecall_diff.compare(0, 10, "MODELFAULT") != 0)
    X.add_violation("ref", "single-call form (istart=0: initialise and generate one event): " + onecall_diff, Forced(), 1);
  if (port_ok) {
    if (o.ref && X.R.available) {
      if (X.R.init_draws != X.P.init_draws) X.add_violation("ref", "initialisation consumes " + std::to_string(X.R.init_draws) + " vs " + std::to_string(X.P.init_draws) + " deviates", Forced(), 1);
      if (c.dbd()) {
        // the reference only assigns toallevents in the window-capable modes (it stays 0 otherwise);
        // the port documents 1 for "no window"
        double a = X.R.toall, b = X.P.toall;
        if (a == 0.0) a = 1.0;
        double tol = (c.mode == 10) ? 5e-4 : 1e-5;
        if (!(std::fabs(a - b) <= tol * std::fabs(a))) {
          char bb[128];
          snprintf(bb, sizeof bb, "toallevents model %.10g port %.10g", a, b);
          X.add_violation("ref", bb, Forced(), 1);
        }
      }
    }
    if (o.ref && X.R.available && c.dbd() && !o.via_gen) {
      // first-lepton spectrum tables of port and model, bin by bin (calibrates the ambiguity guard of
      // the quadrature-based modes and is itself a check of fe1/fe12_mod*, gauss and fermi)
      double pm = X.P.pars.spmax, mm = d0ref::sv_bb_spmax;
      if (pm > 0 && mm > 0) {
        double worst_sig = 0;
        for (int k = 0; k < 4300; k++) {
          double a = X.P.pars.spthe1[k] / pm, b = d0ref::sv_bb_spthe1(k + 1) / mm;
          if (a == b) continue;
          double rel = std::fabs(a - b) / (std::fabs(a) + std::fabs(b));
          table_rel = std::max(table_rel, rel);
          if (std::max(a, b) > 1e-3) worst_sig = std::max(worst_sig, rel);
        }
        if (worst_sig > 2e-3) {
          char bb[128];
          snprintf(bb, sizeof bb, "first-lepton spectrum table differs from the reference (rel %.3g)", worst_sig);
          X.add_violation("ref", bb, Forced(), 1);
        }
        X.tau = std::max(1e-6, std::min(10 * table_rel, 5e-3));
      }
    }
    if (o.inv && c.dbd()) {
      if (!(X.P.toall >= 1 - 1e-9)) X.add_violation("c03", "toallevents < 1", Forced(), 1);
      if (!c.window() && std::fabs(X.P.toall - 1) > 1e-9) X.add_violation("c03", "toallevents != 1 for the full range", Forced(), 1);
    }
    uint64_t phase0 = PHASE;
    for (int ph = 0; ph < o.phases; ph++) {
      PHASE = phase0 + 7919ULL * ph;
      std::stringstream ls(o.layers);
      std::string L;
      while (std::getline(ls, L, ',')) {
        if (L == "A") X.layer_A();
        else if (L.size() == 2 && L[0] == 'B' && L[1] >= '1' && L[1] <= '4') X.layer_B(L[1] - '0');
        else if (L == "C") X.layer_C();
        else if (L == "H") X.layer_H(hi != g_hist.end() ? hi->second.start : Forced());
        else if (L == "0") { auto out = X.exec(Forced()); X.judge(out, Forced()); }
      }
    }
    PHASE = phase0;
  }
  js << ",\"table_rel\":" << jnum(table_rel) << ",\"tau\":" << jnum(X.tau) << ",\"toall_port\":" << jnum(X.P.toall) << ",\"toall_ref\":" << jnum(X.R.toall) << ",\"qbb\":" << jnum(X.P.qbb) << ",\"ek\":" << jnum(X.P.ek) << ",\"edlevel\":" << jnum(X.P.edlevel) << ",\"zdbb\":" << jnum(X.P.zdbb) << ",\"init_draws\":" << X.P.init_draws;
  js << ",\"states\":" << X.expanded.size() << ",\"transitions\":" << X.edges << ",\"thresholds\":" << X.nthr << ",\"executions\":" << X.execs << ",\"model_runs\":" << X.model_runs
     << ",\"sweep_execs\":" << X.sweep_execs << ",\"validated\":" << X.validated << ",\"distinct\":" << X.sigs.size() << ",\"mismatches\":" << X.mism << ",\"ambiguous\":" << X.amb << ",\"nonrobust\":" << X.nonrobust << ",\"horizon\":" << X.horizon << ",\"both_horizon\":" << X.both_horizon
     << ",\"san_reports\":" << X.san << ",\"max_draws\":" << X.inv.max_draws << ",\"max_np\":" << X.inv.max_np << ",\"max_kin\":" << jnum(X.inv.max_kin) << ",\"max_excess\":"
     << jnum(X.inv.max_excess) << ",\"max_deficit\":" << jnum(X.inv.max_deficit) << ",\"ccap_hit\":" << (X.ccap_hit ? "true" : "false") << ",\"deadline_hit\":"
     << (X.deadline_hit ? "true" : "false") << ",\"c_exhaustive\":" << (X.c_exhaustive ? "true" : "false") << ",\"layer_execs\":{";
  bool first = true;
  for (auto & kv : X.layer_execs) {
    js << (first ? "" : ",") << jstr(kv.first) << ":" << kv.second;
    first = false;
  }
  js << "}";
  if (o.calls) {
    js << ",\"calls\":[";
    bool fc = true;
    for (auto & kv : X.calls) {
      js << (fc ? "" : ",") << "{\"unit\":" << kv.second.unit << ",\"args\":[";
      for (size_t k = 0; k < kv.second.args.size(); k++) js << (k ? "," : "") << jnum(kv.second.args[k]);
      js << "],\"first\":" << (kv.second.has_first ? vx::forced_to_json(kv.second.first) : std::string("null")) << ",\"last\":"
         << (kv.second.has_last ? vx::forced_to_json(kv.second.last) : std::string("null")) << "}";
      fc = false;
    }
    js << "]";
  }
  js << ",\"hist_active\":" << (X.Hs ? "true" : "false") << ",\"samples\":[";
  for (size_t k = 0; k < X.samples.size(); k++) js << (k ? "," : "") << X.samples[k];
  js << "],\"violations\":[";
  for (size_t k = 0; k < X.viols.size(); k++) {
    auto & v = X.viols[k];
    // replay discipline: re-run twice, must reproduce identically (else: harness nondeterminism, never a violation)
    std::string rep = "n/a";
    Ev p1, p2;
    if (port_ok) {
      if (X.Hs) X.Hs->shot(X.hist_forced);
      p1 = X.P.shot(v.forced);
      if (X.Hs) X.Hs->shot(X.hist_forced);
      p2 = X.P.shot(v.forced);
      auto biteq = [](const std::vector<double> & x, const std::vector<double> & y) { return x.size() == y.size() && (x.empty() || memcmp(x.data(), y.data(), x.size() * sizeof(double)) == 0); };
      bool same = p1.code == p2.code && biteq(p1.px, p2.px) && biteq(p1.t, p2.t) && p1.ndraws == p2.ndraws;
      rep = same ? "deterministic" : "NONDETERMINISTIC";
    }
    js << (k ? "," : "") << "{\"oracle\":" << jstr(v.oracle) << ",\"why\":" << jstr(v.why) << ",\"forced\":" << vx::forced_to_json(v.forced) << ",\"margin\":" << jnum(v.margin)
       << ",\"replay\":" << jstr(rep) << ",\"port\":" << ev_json(p1);
    if (o.ref && X.R.available && port_ok) js << ",\"model\":" << ev_json(X.R.shot(v.forced));
    js << "}";
  }
  js << "],\"wall_s\":" << jnum(Explorer::now() - t0) << "}";
  return js.str();
}

// ---------------------------------------------------------------- main: process pool
// optional predecessor configuration ("... PRE cat name level mode e1 e2"): initialised first on the SAME
// working objects of model and port (plumbing API: same bbpars, no reset), then the configuration itself
static bool parse_cfg(const std::string & line, Config & c)
{
  std::istringstream is(line);
  if (!(is >> c.cat >> c.name)) return false;
  if (c.cat[0] == '#') return false;
  c.level = 0;
  c.mode = 0;
  c.e1 = c.e2 = -1;
  std::vector<std::string> tok;
  std::string t;
  while (is >> t) tok.push_back(t);
  size_t ih = std::find(tok.begin(), tok.end(), "HIST") - tok.begin();
  if (ih + 3 <= tok.size() && ih < tok.size()) {
    // "... HIST cat name forced [START forced]"
    Hist h;
    h.cfg.cat = tok[ih + 1];
    h.cfg.name = tok[ih + 2];
    {
      // "name:level:mode" for a double-beta history configuration
      size_t c1 = h.cfg.name.find(':');
      if (c1 != std::string::npos) {
        std::string rest = h.cfg.name.substr(c1 + 1);
        h.cfg.name = h.cfg.name.substr(0, c1);
        size_t c2 = rest.find(':');
        h.cfg.level = atoi(rest.substr(0, c2).c_str());
        if (c2 != std::string::npos) h.cfg.mode = atoi(rest.substr(c2 + 1).c_str());
      }
    }
    h.forced = parse_forced(ih + 3 < tok.size() ? tok[ih + 3] : "-");
    c.hist = tok[ih + 1] + " " + tok[ih + 2] + " " + (ih + 3 < tok.size() ? tok[ih + 3] : "-");
    if (ih + 5 < tok.size() && tok[ih + 4] == "START") {
      h.start = parse_forced(tok[ih + 5]);
      c.hist += " START " + tok[ih + 5];
    }
    tok.resize(ih);
    // level/mode/window first so that the key is final
    auto num0 = [&](size_t k, double dflt) { return k < tok.size() ? atof(tok[k].c_str()) : dflt; };
    c.level = (int)num0(0, 0);
    c.mode = (int)num0(1, 0);
    c.e1 = num0(2, -1);
    c.e2 = num0(3, -1);
    g_hist[c.key()] = h;
    return true;
  }
  size_t ip = std::find(tok.begin(), tok.end(), "PRE") - tok.begin();
  auto num = [&](size_t k, size_t end, double dflt) { return k < end ? atof(tok[k].c_str()) : dflt; };
  c.level = (int)num(0, ip, 0);
  c.mode = (int)num(1, ip, 0);
  c.e1 = num(2, ip, -1);
  c.e2 = num(3, ip, -1);
  if (ip + 2 < tok.size()) {
    Config p;
    p.cat = tok[ip + 1];
    p.name = tok[ip + 2];
    p.level = (int)num(ip + 3, tok.size(), 0);
    p.mode = (int)num(ip + 4, tok.size(), 0);
    p.e1 = num(ip + 5, tok.size(), -1);
    p.e2 = num(ip + 6, tok.size(), -1);
    c.pre = p.key();
    for (size_t k = ip + 1; k < tok.size(); k++) c.pre_raw += (k > ip + 1 ? " " : "") + tok[k];
    g_pre[c.key()] = p;
  }
  return true;
}

int main(int argc, char ** argv)
{
  std::string cfgfile, out = "/dev/stdout", replay;
  int jobs = 16;
  Opts o;
  double per_cfg_timeout = 900;
  double global_deadline = 1e18;
  for (int i = 1; i < argc; i++) {
    std::string a = argv[i];
    auto nxt = [&]() { return std::string(i + 1 < argc ? argv[++i] : ""); };
    if (a == "--cfgfile") cfgfile = nxt();
    else if (a == "--out") out = nxt();
    else if (a == "--jobs") jobs = atoi(nxt().c_str());
    else if (a == "--layers") o.layers = nxt();
    else if (a == "--phase") PHASE = strtoull(nxt().c_str(), nullptr, 10);
    else if (a == "--phases") o.phases = atoi(nxt().c_str());
    else if (a == "--oracle") {
      std::string s = nxt();
      o.ref = s.find("ref") != std::string::npos;
      o.inv = s.find("inv") != std::string::npos;
    } else if (a == "--api") o.via_gen = (nxt() == "generator");
    else if (a == "--ccap") o.ccap = atol(nxt().c_str());
    else if (a == "--deadline") o.deadline = atof(nxt().c_str());
    else if (a == "--etol") o.etol = atof(nxt().c_str());
    else if (a == "--litdir") o.litdir = nxt();
    else if (a == "--calls") o.calls = true;
    else if (a == "--c-cap") o.c_cap = atol(nxt().c_str());
    else if (a == "--nme-set") NME_SET = std::max(0, std::min(2, atoi(nxt().c_str())));
    else if (a == "--dense") o.dense = atoi(nxt().c_str());
    else if (a == "--global-deadline") global_deadline = atof(nxt().c_str());
    else if (a == "--horizon") HORIZON = atol(nxt().c_str());
    else if (a == "--squeeze") {
      std::string q = nxt();
      if (sscanf(q.c_str(), "%lf,%lf", &vx::SQ_LO, &vx::SQ_HI) != 2 || !(vx::SQ_LO >= 0 && vx::SQ_HI <= 1 && vx::SQ_LO <= vx::SQ_HI)) { fprintf(stderr, "bad --squeeze\n"); return 2; }
    }
    else if (a == "--timeout") per_cfg_timeout = atof(nxt().c_str());
    else if (a == "--replay") replay = nxt();
    else {
      fprintf(stderr, "unknown option %s\n", a.c_str());
      return 2;
    }
  }
  setenv("BXDECAY0_RESOURCE_DIR", "/repo/resources", 0);
  // the port writes diagnostics on std::cerr for every refused request: keep them out of the way
  if (!getenv("DX_VERBOSE")) {
    FILE * f = freopen("/dev/null", "w", stderr);
    (void)f;
  }
  if (!replay.empty()) {
    // replay file: first line "cat name level mode e1 e2", second line phase, third: api, then "pos value" lines
    std::ifstream in(replay);
    std::string l;
    Config c;
    std::getline(in, l);
    if (!parse_cfg(l, c)) return 2;
    std::getline(in, l);
    PHASE = strtoull(l.c_str(), nullptr, 10);
    std::getline(in, l);
    o.via_gen = (l.compare(0, 9, "generator") == 0);
    if (l.find("nme2") != std::string::npos) NME_SET = 1;
    if (l.find("nme3") != std::string::npos) NME_SET = 2;
    {
      size_t q = l.find("squeeze=");
      if (q != std::string::npos && sscanf(l.c_str() + q + 8, "%lf,%lf", &vx::SQ_LO, &vx::SQ_HI) != 2) return 2;
    }
    Forced f;
    size_t pos;
    double v;
    while (in >> pos >> v) f[pos] = v;
    RefSide R;
    PortSide P;
    P.via_gen = o.via_gen;
    PortSide H;
    auto hi = g_hist.find(c.key());
    bool hist_ok = hi != g_hist.end() && H.init(hi->second.cfg, PHASE) == 0;
    auto pre = g_pre.find(c.key());
    if (pre != g_pre.end() && !o.via_gen) {
      int pr = R.init(pre->second, PHASE), pp = P.init(pre->second, PHASE);
      printf("predecessor %s initialised first on the same working objects: model_ier=%d port_err=%d\n", pre->second.key().c_str(), pr, pp);
    }
    int ier = R.init(c, PHASE);
    int perr = P.init(c, PHASE);
    printf("config %s model_ier=%d port_err=%d\n", c.key().c_str(), ier, perr);
    if (perr == 0) {
      if (hist_ok) {
        Ev h = H.shot(hi->second.forced);
        printf("history shot first (%s): %s\n", hi->second.cfg.key().c_str(), ev_json(h).c_str());
      }
      Ev p = P.shot(f);
      printf("port : %s\n", ev_json(p).c_str());
      if (R.available) {
        Ev r = R.shot(f, getenv("DX_DEBUG") != nullptr, -2);
        printf("model: %s\nmodel_margin=%g search_margin=%g table_margin=%g clamp_fired=%ld\n", ev_json(r).c_str(), std::min(d0ref::mon.min_margin, d0ref::mon.min_smargin), d0ref::mon.min_qmargin, d0ref::mon.min_tmargin, d0ref::mon.clamp_fired);
        if (getenv("DX_DEBUG"))
          for (auto & cr : d0ref::mon.cmps) printf("  cmp draw=%d line=%d cls=%d a=%.12g b=%.12g\n", cr.draw, cr.line, cr.cls, cr.a, cr.b);
        std::string d = compare(c, r, p);
        printf("compare: %s\n", d.empty() ? "equal" : d.c_str());
      }
      InvStats st;
      std::string w = check_c04(c, p, st);
      printf("c04: %s\n", w.empty() ? "ok" : w.c_str());
      w = check_c03(c, p, P, st);
      printf("c03: %s\n", w.empty() ? "ok" : w.c_str());
    }
    return 0;
  }
  std::vector<Config> cfgs;
  {
    std::ifstream in(cfgfile);
    std::string l;
    while (std::getline(in, l)) {
      Config c;
      if (parse_cfg(l, c)) cfgs.push_back(c);
    }
  }
  FILE * fo = fopen(out.c_str(), "w");
  if (!fo) return 2;
  struct Child {
    pid_t pid;
    int fd;
    size_t idx;
    double start;
    std::string buf;
  };
  std::vector<Child> running;
  size_t next = 0, done = 0;
  auto reap = [&](Child & ch, int status) {
    char b[65536];
    ssize_t n;
    while ((n = read(ch.fd, b, sizeof b)) > 0) ch.buf.append(b, n);
    close(ch.fd);
    bool ok = WIFEXITED(status) && WEXITSTATUS(status) == 0 && !ch.buf.empty();
    if (ok) fprintf(fo, "%s\n", ch.buf.c_str());
    else {
      std::string how = WIFSIGNALED(status) ? ("signal " + std::to_string(WTERMSIG(status))) : ("exit " + std::to_string(WEXITSTATUS(status)));
      fprintf(fo, "{\"config\":%s,\"key\":%s,\"crashed\":%s}\n", cfg_json(cfgs[ch.idx]).c_str(), jstr(cfgs[ch.idx].key()).c_str(), jstr(how).c_str());
    }
    fflush(fo);
    done++;
  };
  double t_start = Explorer::now();
  while (done < cfgs.size()) {
    while (running.size() < (size_t)jobs && next < cfgs.size()) {
      double left = global_deadline - (Explorer::now() - t_start);
      if (left < 5) {
        // global deadline: the remaining configurations are reported as not explored (the run is then not exhaustive)
        fprintf(fo, "{\"config\":%s,\"key\":%s,\"skipped\":true}\n", cfg_json(cfgs[next]).c_str(), jstr(cfgs[next].key()).c_str());
        next++;
        done++;
        continue;
      }
      Opts oc = o;
      oc.deadline = std::min(o.deadline, left);
      int pfd[2];
      if (pipe(pfd)) return 2;
      pid_t p = fork();
      if (p == 0) {
        close(pfd[0]);
        alarm((unsigned)per_cfg_timeout);
        std::string r = run_config(cfgs[next], oc);
        size_t off = 0;
        while (off < r.size()) {
          ssize_t n = write(pfd[1], r.data() + off, r.size() - off);
          if (n <= 0) break;
          off += n;
        }
        close(pfd[1]);
        _exit(0);
      }
      close(pfd[1]);
      running.push_back({p, pfd[0], next, Explorer::now(), ""});
      next++;
    }
    // drain pipes without blocking forever: poll children
    bool progressed = false;
    for (size_t k = 0; k < running.size();) {
      Child & ch = running[k];
      // non-blocking read of what is available
      char b[65536];
      int fl = 0;
      (void)fl;
      int status = 0;
      pid_t w = waitpid(ch.pid, &status, WNOHANG);
      if (w == 0) {
        // still running: read available bytes to avoid pipe-full deadlock
        fd_set rs;
        FD_ZERO(&rs);
        FD_SET(ch.fd, &rs);
        struct timeval tv = {0, 0};
        if (select(ch.fd + 1, &rs, nullptr, nullptr, &tv) > 0) {
          ssize_t n = read(ch.fd, b, sizeof b);
          if (n > 0) ch.buf.append(b, n);
        }
        k++;
        continue;
      }
      reap(ch, status);
      running.erase(running.begin() + k);
      progressed = true;
    }
    if (!progressed) usleep(2000);
  }
  fclose(fo);
  return 0;
}
