"""C14 — the gA sampler stays in the kinematic domain and inverts its cumulative tables (DESIGN §2 C14)."""
import itertools, json, os, subprocess, shutil
import concurrent.futures as cf
import vlib, gadata

VALS = [0.0, 1e-6, 1.0, 1e3]


def shapes(n):
    """for n >= 4: flat, ridge, corner-peaked, zero cells, runs of nines along rows and along e1"""
    tri = lambda f: [[f(i, j) for j in range(n - i)] for i in range(n)]
    out = {
        'flat': tri(lambda i, j: 1.0),
        'ridge': tri(lambda i, j: 10.0 if i == j else 0.5),
        'corner': tri(lambda i, j: 1000.0 if i + j == 0 else 1e-3),
        'zeros': tri(lambda i, j: 0.0 if (i + j) % 2 else 2.0),
        'nines-rows': tri(lambda i, j: 9.0 * 10.0 ** (-j)),
        'nines-e1': tri(lambda i, j: 9.0 * 10.0 ** (-2 * i) if j == 0 else 1e-14 * 10.0 ** (-2 * i)),
        'nines-deep': tri(lambda i, j: 9.0 * 10.0 ** (-3 * j - 3 * i)),
        'rising': tri(lambda i, j: 1e-3 * 10.0 ** (i + j)),
    }
    return out


def build(root, name, rows, emin, emax, qbb=None):
    if qbb is None:
        qbb = round(emin + emax + 0.05, 4)
    d = os.path.join(root, name, 'data/dbd_gA/v1.0/Test/g0')
    try:
        info = gadata.write_dataset(d, rows, emin, emax, qbb, 'Test', 'g0')
    except ZeroDivisionError:
        return None  # a row (or the whole table) without probability: the documented encoder cannot write it
    with open(os.path.join(d, 'expect.txt'), 'w') as f:
        f.write('%d %.17g %.17g %.17g %.17g\n' % (info['n'], info['emin'], info['emax'], info['step'], qbb))
        f.write(' '.join('%.17g' % v for v in info['e1_cdf']) + '\n')
        for r in info['e2_cdf']:
            f.write(' '.join('%.17g' % v for v in r) + '\n')
    return name


def run(tier, rep):
    exe = vlib.build_harness('checks/c14.cc', 'plain')
    d = vlib.scratch('c14')
    root = os.path.join(d, 'ds')
    shutil.rmtree(root, ignore_errors=True)
    names = []
    skipped = 0
    ranges = [(0.01, 1.0), (0.1, 2.9)]
    sizes = [2, 3] if tier == 'quick' else [2, 3, 4]
    for n in sizes:
        ncell = n * (n + 1) // 2
        if n <= 3:
            assigns = itertools.product(range(4), repeat=ncell)
        else:
            # n = 4: every assignment over {0, 1, 1e3} of the 10 cells would be 59049; take all assignments over {1e-6, 1e3}
            assigns = itertools.product([1, 3], repeat=ncell)
        for k, a in enumerate(assigns):
            rows, it = [], iter(a)
            for i in range(n):
                rows.append([VALS[next(it)] for j in range(n - i)])
            for ri, (emin, emax) in enumerate(ranges):
                if n >= 3 and ri != (k % 2) and tier == 'quick':
                    continue
                nm = build(root, 'n%d_a%d_r%d' % (n, k, ri), rows, emin, emax)
                if nm:
                    names.append(nm)
                else:
                    skipped += 1
    for n in ([4, 5] if tier == 'quick' else [4, 5, 6, 8, 12]):
        for sname, rows in shapes(n).items():
            for ri, (emin, emax) in enumerate(ranges):
                nm = build(root, 'n%d_%s_r%d' % (n, sname, ri), rows, emin, emax)
                if nm:
                    names.append(nm)
                else:
                    skipped += 1
    # the E_step field of the p.d.f. header is informative only: the shipped mock table and the example in the documentation
    # carry a rounded value that differs from (E_max-E_min)/(n-1), and the loader recomputes it; same tables, other field
    import re as _re
    for nm0 in [n_ for n_ in names if n_.startswith(('n4_flat', 'n5_ridge', 'n4_corner', 'n5_rising'))]:
        nm = nm0 + '_step'
        src, dst = os.path.join(root, nm0), os.path.join(root, nm)
        shutil.copytree(src, dst)
        pf = os.path.join(dst, 'data/dbd_gA/v1.0/Test/g0/tab_pdf.data')
        txt = open(pf).read()
        m = _re.search(r'^(Probability\s+\S+\s+\S+\s+)(\S+)(\s+\d+)', txt, _re.M)
        if not m:
            raise SystemExit('HARNESS-ERROR: p.d.f. header not found in ' + pf)
        txt = txt[:m.start(2)] + ('%.4f' % (float(m.group(2)) * 0.875)) + txt[m.end(2):]
        open(pf, 'w').write(txt)
        names.append(nm)
    # grids that extend past the kinematic limit (E_min + E_max > Esum_max) with a null p.d.f. beyond it: the loader
    # supports such files explicitly ("Should be zero!")
    for n in (4, 5, 6):
        for ri, (emin, emax) in enumerate(ranges):
            step = (emax - emin) / (n - 1)
            for frac in (0.55, 0.8):
                qbb = round(emin + frac * (emin + emax), 4)
                rows = [[(1.0 + ((3 * i + j) % 4)) if (emin + i * step) + (emin + j * step) <= qbb else 0.0 for j in range(n - i)] for i in range(n)]
                # rows without probability cannot be encoded as c.d.f. by the documented encoder: p.d.f. file only
                nm = 'n%d_beyondQ%d_r%d' % (n, int(frac * 100), ri)
                dd = os.path.join(root, nm, 'data/dbd_gA/v1.0/Test/g0')
                os.makedirs(dd)
                with open(os.path.join(dd, 'tab_pdf.data'), 'w') as f:
                    f.write('#isotope=Test\n#dbd_ga.mode=g0\n%.4f\nProbability %.16e %.16e %.16e %d\n' % (qbb, emin, emax, step, n))
                    for r_ in rows:
                        f.write(' '.join('%.7e' % v for v in r_) + '\n')
                with open(os.path.join(dd, 'expect.txt'), 'w') as f:
                    f.write('%d %.17g %.17g %.17g %.17g\n' % (-n, emin, emax, step, qbb))
                names.append(nm)
    modes_tree = os.path.join(d, 'modes_tree')
    gadata.install_tree(modes_tree)
    chunks = [names[i::16] for i in range(16)]

    def work(i):
        lst = os.path.join(d, 'list%d' % i)
        open(lst, 'w').write('\n'.join(chunks[i]) + '\n')
        out = os.path.join(d, 'out%d.json' % i)
        r = subprocess.run([exe, '--list', lst, '--root', root, '--out', out] + (['--modes-tree', modes_tree] if i == 0 else []), timeout=3000, stdout=subprocess.PIPE, stderr=subprocess.PIPE, text=True)
        if r.returncode == 77 and os.path.exists(out + '.crash'):
            txt = open(out + '.crash').read().split('\n', 1)
            return {'evaluations': 0, 'nontrivial': 0, 'datasets': 0, 'cdf_lines': 0, 'samples': [], 'crashed': True,
                    'violations': [{'key': 'crash:' + txt[1].split(' ')[0], 'text': 'the library killed the process (%s) while sampling %s' % (txt[0], txt[1])}]}
        if r.returncode != 0:
            raise SystemExit('HARNESS-ERROR: c14 exited %d %s' % (r.returncode, r.stderr[-500:]))
        return json.load(open(out))
    with cf.ThreadPoolExecutor(16) as ex:
        results = list(ex.map(work, range(16)))
    shutil.rmtree(root, ignore_errors=True)
    ev = nt = ds = ln = 0
    samples = []
    for x in results:
        ev += x['evaluations']; nt += x['nontrivial']; ds += x['datasets']; ln += x['cdf_lines']
        samples += x['samples'][:1]
        for v in x['violations']:
            # key by the kind of failure and the dataset family, not by every dataset
            if v['key'].startswith('history:'):
                rep.violation('ga:history', v['text'])
                continue
            if v['key'].startswith('ga:mode:'):
                rep.violation(v['key'], v['text'])
                continue
            if v['key'].startswith('long:'):
                rep.violation('ga:long-history' if v['key'] == 'long:history' else 'ga:' + v['key'], v['text'])
                continue
            if v['key'].startswith('select:'):
                rep.violation('ga:' + v['key'].replace(' ', '_'), v['text'])
                continue
            if v['key'].startswith(('reuse:', 'crash:')):
                kind = v['key'].split(':')[0]
                rep.violation('ga:%s' % kind if kind == 'crash' else 'ga:reuse:%s' % v['key'].rsplit(':', 1)[-1], v['text'])
                continue
            k = v['key'].split(':', 1)
            fam = k[0].split('_')[0] + ('_' + k[0].split('_')[1] if not k[0].split('_')[1].startswith('a') else '')
            rep.violation('ga:%s:%s' % (fam, k[1]), v['text'])
    if ds != len(names) and not any(x.get('crashed') for x in results):
        raise SystemExit('HARNESS-ERROR: %d of %d datasets processed' % (ds, len(names)))
    rep.coverage.update({
        'evaluations': ev, 'distinct_nontrivial': nt, 'datasets': ds, 'datasets_the_encoder_cannot_write': skipped, 'cdf_lines_decoded': ln,
        'exhaustive': True, 'samples': samples[:4] or ['none'],
        'rule': 'samplers are history-free: pairs for fixed streams in a pristine child process = pairs after other datasets went through the same process; the decoder is handed one output vector for all lines; decay0_generator in each gA mode x 4 nuclides equals a dbd_gA object configured directly with the matching process (every (nuclide, process) pair has a dataset of its own); one object through initialise(A) -> reset -> initialise(B) vs. a new object on B for consecutive dataset pairs in both orders x the four method combinations x a 7x7 deviate grid (each pair in a forked child); datasets: every assignment of {0,1e-6,1,1e3} to the cells of the kinematic triangle for n=2,3 (n=4: every assignment of {1e-6,1e3}; thorough) and eight '
                'shapes (flat, ridge, corner, zero cells, runs of nines along rows / along e1 / deep, rising) for larger n, two energy ranges, written with the '
                'repository\'s mkocdfdata.py; per dataset: every c.d.f. line decoded by load_optimized_cdf_array vs the encoder-side table (encoding precision), '
                'monotone, in [0,1], ending at 1; inverse-transform sampler on all table boundaries (exact, +-1e-9, +-1e-3), mid points and tails: energies >= 0, '
                'sum <= dataset maximum, cell membership, monotone in each deviate; rejection sampler on a 7x7x3 grid; shoot(): two electrons with exactly the '
                'sampled energies and opening angle; non-trivial = evaluations that selected a table cell or produced an event',
    })
    rep.assumptions += ['well-formed dataset = what the documented encoder can write (no row without probability) with emin+emax <= Qbb',
                        'decoding tolerance 6e-6 * 10^-(nines+1)']


def replay(path):
    print(open(path).read())
    return 1
