"""C11 — stored events read back unchanged; the reader delivers exactly the asked window (DESIGN §2 C11)."""
import os, subprocess, json, shutil, tempfile
import vlib


def run(tier, rep):
    exe = vlib.build_harness('checks/c11.cc', 'plain')
    d = vlib.scratch('c11')
    base = '/dev/shm' if os.path.isdir('/dev/shm') and os.access('/dev/shm', os.W_OK) else d
    work = tempfile.mkdtemp(prefix='bxd0-c11-', dir=base)
    out = os.path.join(d, 'out.json')
    nmax = 4 if tier == 'quick' else 7
    try:
        r = subprocess.run([exe, '--dir', work, '--out', out, '--nmax', str(nmax)] + (['--thorough'] if tier != 'quick' else []),
                           timeout=3400, stdout=subprocess.PIPE, stderr=subprocess.PIPE, text=True)
    finally:
        shutil.rmtree(work, ignore_errors=True)
    if r.returncode == 77 and os.path.exists(out + '.crash'):
        txt = open(out + '.crash').read().split('\n', 1)
        rep.violation('crash:' + txt[1].split(' start=')[0].replace(' ', '_')[:60], 'the reader killed the process (%s) in scenario: %s' % (txt[0], txt[1]))
        rep.coverage.update({'evaluations': 0, 'exhaustive': False, 'rule': 'aborted by a crash of the code under test (see violation)', 'samples': ['none']})
        return
    if r.returncode != 0:
        raise SystemExit('HARNESS-ERROR: c11 exited %d %s' % (r.returncode, r.stderr[-500:]))
    x = json.load(open(out))
    for v in x['violations']:
        rep.violation(v['key'], v['text'])
    rep.coverage.update({
        'states': x['states'], 'transitions': x['transitions'], 'traces_validated_against_impl': x['runs'],
        'evaluations': x['runs'] + x['roundtrip_events'], 'distinct_nontrivial': x['states'],
        'roundtrip_events': x['roundtrip_events'], 'exhaustive': True, 'samples': x['samples'],
        'rule': 'state = (stream length N <= %d, split of the stream over 1..3 files incl. empty and white-space-only files, start in 0..N+1, max in 0..N+1); '
                'for each state every call pattern with 0..3 has_next_event() calls before each load and 3 after exhaustion is run on a real event_reader over real '
                'files; reference model = list slice events[start:start+max]; every has_next answer, every loaded event, the loaded counter are compared. Round trip: '
                'single-particle events over the full product species (all six particle codes) x time x px x py x pz of an 9-value alphabet (incl. denormal-edge and 1e300), structured '
                '0/2/3-particle events, written exactly as bxdecay0-run writes records, once on a stream prepared like the driver\'s (precision 15) and once on a stream left at its defaults' % nmax,
    })
    rep.assumptions += ['record format = "<id> " + event::store(STORE_EVENT_TIME) + blank line, as written by programs/bxdecay0_driver.cpp',
                        'an unannounced load_next_event is only issued when the reference model says an event of the window is due']


def replay(path):
    print(open(path).read())
    return 1
