#!/bin/bash
# Generate the reference model d0ref from /repo's Fortran source (tools/f2cxx.py) and compile it
# into a static library. Content-addressed like buildlib.sh; prints the directory holding
# ref.h and libd0ref.a.
set -euo pipefail
REPO=${VERIF_REPO:-/repo}
VERIF=$(cd "$(dirname "$0")/.." && pwd)
CACHE=${VERIF_CACHE:-$VERIF/.cache}
FOR="$REPO/resources/code/decay0/decay0_2020-04-20.for"
mkdir -p "$CACHE"
KEY=$(cat "$FOR" "$VERIF/tools/f2cxx.py" "$VERIF/ref/d0rt.h" "$VERIF/ref/cernlib_shim.cc" | sha256sum | cut -c1-16)
DIR="$CACHE/ref-$KEY"
exec 9>"$CACHE/lock-ref"
flock 9
if [ ! -f "$DIR/.ok" ]; then
  find "$CACHE" -maxdepth 1 -name "ref-*" ! -name "ref-$KEY" -exec rm -rf {} + 2>/dev/null || true
  rm -rf "$DIR"; mkdir -p "$DIR"
  python3 "$VERIF/tools/f2cxx.py" "$FOR" "$DIR" 8 2>"$DIR/f2cxx.log" || { cat "$DIR/f2cxx.log" >&2; exit 3; }
  pids=()
  for k in 0 1 2 3 4 5 6 7; do
    g++ -std=c++17 -O1 -g1 -fno-omit-frame-pointer -I"$VERIF/ref" -I"$DIR" -c "$DIR/ref_$k.cc" -o "$DIR/ref_$k.o" & pids+=($!)
  done
  g++ -std=c++17 -O1 -g1 -fno-omit-frame-pointer -I"$VERIF/ref" -I"$DIR" -c "$VERIF/ref/cernlib_shim.cc" -o "$DIR/shim.o" & pids+=($!)
  for p in "${pids[@]}"; do wait "$p" || { echo "model compile failed" >&2; exit 3; }; done
  ar rcs "$DIR/libd0ref.a" "$DIR"/ref_*.o "$DIR/shim.o"
  rm -f "$DIR"/ref_*.o "$DIR/shim.o"
  touch "$DIR/.ok"
fi
echo "$DIR"
