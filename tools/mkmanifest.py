#!/usr/bin/env python3
"""Regenerates MANIFEST.json from the table below (kept in one place so it stays valid)."""
import json, os
V = os.path.dirname(os.path.dirname(os.path.abspath(__file__)))
CHECKS = {
 'C01': dict(level='model_checking', ref='DESIGN.md §2 C01', engine='dx',
   technique='exhaustive bounded exploration of deviate choice points (decision thresholds solved from the reference model), every execution replayed on transpiled-Fortran model and port',
   text='Every explored execution (all (draw-site, threshold-side) edges of every reference background scheme, plus all executions with <=1 (quick) / <=2 (thorough) forced deviates and all discrete paths up to a cap; at every rejection test the preceding draw swept over a 24-point grid with both sides of the re-solved threshold probed) is run on the mechanically transpiled Fortran reference and on the port through GENBBsub/genbbsub and compared particle by particle and draw for draw; the edge coverage is repeated under squeezed default streams (every unforced deviate in a half, third or tenth of (0,1)) and the single-call form of the entry point (istart=0) is compared with the single call of the model.',
   note='Trusted: tools/f2cxx.py transpilation (REAL as double), independent CERNLIB stand-ins, affine-threshold discovery; continuous draws at tails, 0.5, the default-stream value and (before rejection tests) a 24-point grid; margin classes of DESIGN section 6 decide which executions can be judged.'),
 'C02': dict(level='model_checking', ref='DESIGN.md §2 C02', engine='dx',
   technique='complete enumeration of the (isotope, level, mode) grid against the reference acceptance, then bounded exhaustive deviate-choice exploration per accepted configuration, model vs port',
   text='All 18360 (isotope, level 0..17, mode 1..20) requests are issued to model and port; for each of the ~1130 accepted ones initialisation (deviates consumed, toallevents, 4300-bin spectrum table) and all explorer executions (layers A+B1 quick, A+B2+C thorough) are compared with the transpiled reference; energy windows on window-capable modes (incl. a narrow one), re-initialisation chains on one working block, mode 18 with three sets of nuclear matrix elements, the single-call form of the entry point (istart=0) against the single call of the model, and the edge coverage again under squeezed default streams.',
   note='Trusted: as C01; executions whose model decision margin is below tau (10x measured table noise) are counted ambiguous; mode 18 with one NME set.'),
 'C03': dict(level='exploration', ref='DESIGN.md §2 C03', engine='dx',
   technique='bounded exhaustive deviate-choice exploration of every accepted configuration through decay0_generator with an energy-budget invariant; nested window chains',
   text='Every execution of the explorer (complete accepted grid + nested energy windows, driven through the public generator class) is checked against the Q-value budget (=Q within 3 keV for neutrinoless modes, <=Q otherwise), the window on the lepton energy sum and the toallevents rules (>=1, =1 full range, monotone along nested windows), also under squeezed default streams. Independent of the reference model, so it also binds the BxDecay0-only paths and defects shared with the reference.',
   note='Trusted: Q as reported by bbpars.Qbb (cross-checked by C02); tolerance 3 keV; thresholds discovered on the model (affine) or by bisection on the port.'),
 'C04': dict(level='exploration', ref='DESIGN.md §2 C04', engine='dx',
   technique='bounded exhaustive deviate-choice exploration incl. extreme tails of every draw, well-formedness invariant and draw-horizon (livelock) detection',
   text='All 69 background names and all accepted double-beta configurations (plus windows) are explored through decay0_generator with the tails 1e-12 / 1-1e-12 in the alphabet of every choice point (<=1 forced draw quick, <=2 thorough, plus edge coverage); every execution must end within 1e5 deviates under the fair default stream and yield a valid, time-ordered event with the requested label. The edge coverage is repeated under squeezed default streams (every unforced deviate mapped into a half, third or tenth of (0,1): loops that a fair stream leaves after a few turns keep turning; a horizon is judged only when the model terminates on the same deviates with every margin clear) and on working blocks re-initialised without a reset (same-mode chains, background names after a double-beta session).',
   note='Trusted: fairness of the counter-hash default stream; horizon 1e5 deviates; kinetic-energy bound 12 MeV.'),
 'C08': dict(level='exploration', ref='DESIGN.md §2 C08', engine='dx',
   technique='the bounded exhaustive explorations of C01-C04 re-run on an ASan+UBSan+_GLIBCXX_ASSERTIONS build, sanitizer reports as oracle',
   text='The same exhaustive edge-coverage exploration (every published name, every accepted double-beta configuration, windows; generator and plumbing entry points in the thorough tier) is executed against the sanitizer build of /repo in recover mode, together with the drivers of C14 (gA sampler), C07 (API histories over every double-beta mode), C09, C10 and C11; any AddressSanitizer/UBSan report (UBSan through the runtime report hook) or fatal signal is a violation identified by kind and top bxdecay0 frame. For never-assigned locals the edge coverage is repeated on an unoptimised build with pattern-initialised automatic variables and compared with the model; the edge coverage of the sanitizer build is repeated under squeezed default streams; the thorough tier adds a valgrind pass.',
   note='Trusted: GCC ASan/UBSan; float division by zero excluded; uninitialised reads are outside ASan/UBSan.'),
 'C06': dict(level='model_checking', ref='DESIGN.md §2 C06', engine='c06',
   technique='complete enumeration of the finite request grid; acceptance compared cell by cell with the transpiled reference GENBBsub (kernel stubbed) and README rules',
   text='The complete product (54 names x levels -1..17 x modes 0..25 x 4 window variants = 106704 requests) is issued to fresh decay0_generator instances; accept/reject is compared with the reference rules evaluated on the transpiled Fortran; rejected requests must throw, stay un-initialised and refuse to shoot; accepted ones must produce events satisfying the C03/C04 invariants; mode labels round-trip and no other string (prefixes, extensions, case variants) resolves to a mode.',
   note='Trusted: transpiled GENBBsub rules; gA acceptance against synthetic datasets; README rule for mode 20 (ground state only) overrides the Fortran coercion.'),
 'C09': dict(level='model_checking', ref='DESIGN.md §2 C09', engine='c09',
   technique='explicit-state breadth-first search over public API call sequences, histories replayed on fresh objects, conformance with a reference state machine on every transition',
   text='All sequences of a ~24-operation alphabet (setters with valid and invalid arguments incl. a dropped window, add_operation(MDL|null), initialize, shoot, reset, destroy+new, plus three auxiliary entry points as leaves) up to depth 7 (quick) / 8 (thorough, with and without gA data), started from a new object and from four states reached by a refused initialisation, are executed on real decay0_generator objects; after every transition exception/no-exception, every getter, defaults after reset (all working parameters), the working parameters after every successful initialisation and a probe shot against a fresh instance are compared with a boring reference machine whose validity predicate is the transpiled reference rule set (windows: valid, inverted, empty, well ordered but above the available energy, dropped).',
   note='Trusted: reference machine written from the literal property text; merge of states justified by the reference state plus a sticky refused-operation mark; bounds 2 operations / 2 shots per history.'),
 'C07': dict(level='exploration', ref='DESIGN.md §2 C07', engine='c07',
   technique='exhaustive enumeration of prior-activity histories up to a depth (replayed on fresh objects), differential probe shots against the canonical history',
   text='For all 69 background names and 20+ double-beta configurations (every isotope in the thorough tier), every history up to depth 3 (4 thorough) over 11 kinds of prior API activity (event reuse with exact capacities and with/without stale label and event time, reset/re-initialise, other instances alive or destroyed, rebuild) is followed by 9 probe shots with recorded deviate streams that must equal the canonical first-shot-of-a-fresh-generator event bit for bit; two predecessor-first histories per configuration in fresh processes (a sibling configuration runs first); double-beta sibling histories (mode 18 with three sets of matrix elements); collision histories: every ordered pair of beta-sampler calls of different decay schemes that agree in Q and differ elsewhere (from the model call trace), predecessor shot before every port shot of the successor, successor explored against the history-free model; working parameters compared after re-initialisation; probes include steered ones (each of the first 40 deviates in a tail, and pairs: candidate in a tail + acceptance deviate at 0); one 1e4 (1e6 thorough) shot history per configuration.',
   note='Trusted: bit-for-bit comparison; the long history is a single deterministic history, not exhaustive.'),
 'C11': dict(level='model_checking', ref='DESIGN.md §2 C11', engine='c11',
   technique='explicit-state enumeration of (stream, file partition, window, call pattern) against a list-slice reference model on real files; exhaustive value-alphabet round trip',
   text='Every stream of N<=4 (7 thorough) events, every split over 1-3 files including empty files, every (start,max) in 0..N+1 plus max = INT_MAX, every has_next/load call pattern (with a fresh event object per load and with one shared object) is executed on a real event_reader; each answer is compared with the slice model events[start:start+max]; past the window the reader must report itself terminated and one more load must deliver nothing. Streams of records with 1..3 and with 0..3 particles (a zero-particle record first, inner and last in a file). Round trip of ~10k (40k) enumerated events over all six particle species, every published nuclide name and labels of every length 1..40 through the CLI record format to 15 digits.',
   note='Trusted: the record layout copied from the driver; loads are only issued after a positive has_next_event.'),
 'C10': dict(level='exploration', ref='DESIGN.md §2 C10', engine='c10',
   technique='exhaustive enumeration of the finite product events x cone setups x entry points x deviate grid with geometric invariants; differential generator-level runs',
   text='1.4M (quick) / ~6M (thorough) applications of the real operation over the full product of synthetic and generated events, cone axes, apertures, rectangular half-angle pairs, filters (incl. positrons), ranks, error flag and all five configuration entry points (every label of the label-based one must act like the corresponding species code), with both tails of the two cone deviates; every application is checked for count/species/time/|p| preservation, rigid proper rotation, cone or rectangular-window membership (frame built independently), untouched unselected particles, and the nothing-selected rules; generator-level runs compare the decay sample with and without the operation and require the result to be the plain decay followed by the operation(s) applied directly with the next deviates (one, two and three registered operations); scripted rejection runs on the rectangular window (K rejected candidates then an accepted one, K up to 4097).',
   note='Trusted: independent cone-frame construction (Rz(phi)Ry(theta)); tolerances stated in the evidence.'),
 'C16': dict(level='exploration', ref='DESIGN.md §2 C16', engine='c16',
   technique='exhaustive enumeration of monomial/degree/interval/panel grids against closed forms (exactness by linearity) with negative controls',
   text='Each kernel is run on a complete finite grid whose oracle is a closed form or an independent evaluation: all monomials up to the guaranteed degree for the Gauss-Legendre panels and Simpson (steps that tile the interval and steps that do not; the first non-exact degree as negative control), integrand families with closed-form integrals for the adaptive quadrature at every requested tolerance, unimodal families for the golden section (both entry points; the alternate one with its interior point centred, near the ends and at the golden ratios), polynomials on three table layouts and every table length from 2 nodes for divided differences, an angle grid (all three angles over full turns) for the Euler rotation and a (Z,E) grid for the Fermi function against an independent long-double Lanczos evaluation.',
   note='Trusted: closed forms; long double arithmetic of the reference evaluations.'),
 'C14': dict(level='exploration', ref='DESIGN.md §2 C14', engine='c14',
   technique='exhaustive enumeration of small synthetic datasets (all cell assignments over a value alphabet) x all table-boundary deviates, encoder-side tables as reference model',
   text='Every assignment of a 4-value alphabet to the cells of the kinematic triangle (n=2,3; n=4 thorough) plus shaped larger tables, written with the repository\'s own encoder, is loaded by the real decoder and sampler; every c.d.f. line is compared with the encoder-side table, and both sampling methods are driven over every table boundary (exact and +-1e-9/1e-3), mid points and tails, checking domain, cell membership (for the rejection method: the accepted pair is the proposal of the accepted trial on the grid the file describes), monotonicity and the exported event (energy deviates scripted down to 1e-12); scripted rejection runs (K rejected trials then an accepted one, K up to 99990, must give the pair of the accepted trial and 3(K+1) deviates); one object re-used across datasets must sample like a new one (also after 30000 shots), a dataset installed as another version / process / nuclide must be the one an object configured for it samples, and a dataset sampled after others in the same process like in a pristine process.',
   note='Trusted: resources/data/dbd_gA/tools/mkocdfdata.py as the documented encoder (imported, not copied); datasets with emin+emax <= Qbb.'),
 'C05': dict(level='exploration', ref='DESIGN.md §2 C05', engine='c05',
   technique='complete enumeration of the finite catalogues (README, list files, dispatch literals) with set equality, plus deviation-bounded exhaustive differential runs name-through-generator vs own scheme function',
   text='README appendix 1, the resource list files (parsed independently and through the library) and the dispatch literals of genbbsub.cc are enumerated completely and compared as sets per category (plus the mode table); every name of the union is initialised and shot, and ~30 names that are published nowhere and match no dispatch entry must be refused; for each of the 69 published background names the event obtained through decay0_generator is compared bit for bit (and in deviates consumed) with the nuclide\'s own scheme function plus exactly the documented daughter, for the default stream and every single forced deviate position over a 15-value grid; every published background name is also initialised and explored against the model on a working block that has just served a double-beta session (the set of accepted names must not depend on it).',
   note='Trusted: the name -> scheme-function table written from the README; double-beta schemes are bound by C02.'),
 'C12': dict(level='model_checking', ref='DESIGN.md §2 C12', engine='c12',
   technique='stateless exhaustive exploration of thread interleavings of the real code under a cooperative scheduler (preemption-bounded, state-hash pruned), plus a free-running ThreadSanitizer pass',
   text='All schedules of 2-3 harness threads over the interposed synchronisation points of the real library (GSL handler save/disable/restore, quadrature entry/exit, mutex lock/unlock, every call of a libc function with hidden process-wide state such as strtok/rand/localtime) up to preemption bound 2 (quick) / 3-4 (thorough) are executed, each in a forked child: no abort, no deadlock, handler restored, sequential results; whole-generator harnesses compare each thread\'s events with its sequential events (threads that construct, initialise and shoot, and threads that only shoot generators the parent initialised). A separate unserialised ThreadSanitizer run of 23 concurrent generators (and first-use groups, incl. nine concurrent initialisations of the modes that run the nested quadratures) catches unsynchronised accesses, including unsynchronised callers of non-reentrant libc functions (mirrored on an instrumented proxy).',
   note='Trusted: preemption only at interposed points, sequential consistency; TSan for everything below; glibc/libstdc++ internals are not scheduled.'),
 'C13': dict(level='fault_enumeration', ref='DESIGN.md §2 C13', engine='c13',
   technique='exhaustive enumeration of every write()-level kill point and torn write of the CLI run (LD_PRELOAD shim) plus enumerated command lines compared byte for byte with an in-process API recomputation',
   text='Every write()/writev() to the event and companion files of several command lines is numbered through an LD_PRELOAD shim and the run is repeated with the process killed before each write and with that write torn (1 byte, half): the completion marker may only be present if the event file equals the complete one, and what is left is a prefix. 150+ command lines (accepted and refused, one-sided windows, activity, MDL options all together and each alone, the options in reversed and rotated order, seeds 0 and INT_MAX, a refused run re-using the basename of a successful one) are run twice on the binary built from /repo and compared byte for byte with the library API driven in-process with the same seed (one shared engine behind an adaptor of the check; refusals decided by the reference acceptance rules of the model first, so that neither the engine wrapper of the library nor its own acceptance is trusted).',
   note='Trusted: process kill only (no reordering of completed writes, no ENOSPC); refusal rules from README/--help.'),
 'C17': dict(level='exploration', ref='DESIGN.md §2 C17', engine='c17',
   technique='exhaustive enumeration of a configuration grid on the unmodified Geant4 extension sources compiled against a minimal Geant4 stand-in; differential against the core API',
   text='The unmodified primary_generator_action.cc and unique_point_vertex_generator.cc are compiled against stand-in Geant4 headers and driven over ~4000 (quick) configurations (categories, valid/invalid/unpublished nuclides, seeds, modes, levels, windows, MDL, three vertex-generator situations; on a sub-grid also a user-changed gun multiplicity and re-configuration of one action object after five other configurations); refusal is compared with the core tools (driver rules + decay0_generator::initialize run in-process) (refused requests also after re-configuration with or without an explicit ApplyConfiguration) and every handed-over primary with the particle of an identically seeded core generator (species, momentum in MeV, time in seconds, vertex; vertex generators by reference, by pointer, exhausted, moving, un-installed in mid-run; circular and rectangular direction locks incl. a null second half-angle).',
   note='Trusted: the stand-in reproduces G4ParticleGun::SetParticleMomentum semantics and CLHEP unit values; real Geant4 is not available offline.'),
 'C15': dict(level='fault_enumeration', ref='DESIGN.md §2 C15', engine='c15',
   technique='bounded exhaustive mutation of small seed files (all truncations, all token x adversarial-alphabet replacements, line deletions/duplications, argv prefixes), each mutant loaded in a forked child of the sanitizer build',
   text='Every byte-prefix truncation, every token replaced by each of 18 adversarial strings, every integer token by every integer in -2..50, every token duplicated and every line deleted/duplicated/extended of a two-event file, a gA p.d.f. table, its encoder-written c.d.f. table, the three catalogue lists and two argument vectors (~5000 mutants quick; pairs of replacements thorough) is fed to the real loader in a forked child of the ASan+UBSan+_GLIBCXX_ASSERTIONS build with a time limit and a single-allocation cap (event files are read from the start and through the skip path of a later start); allowed outcomes: exception, or a load satisfying the loader\'s validity predicate (incl. every stored identifier and every particle code inside its enumeration); a gA object whose load was refused must then load the unmutated dataset and sample exactly like a new object.',
   note='Trusted: GCC sanitizers, libstdc++ assertions; validity predicates stated in the evidence.'),
}
NOT_YET = {
}
def main():
    props = [json.loads(l) for l in open(os.path.join(V, 'properties.jsonl'))]
    checks = []
    na = []
    for p in props:
        pid = p['id']
        if pid in CHECKS:
            c = CHECKS[pid]
            checks.append({
                'property_id': pid,
                'quick_cmd': 'bin/check %s --tier quick' % pid,
                'thorough_cmd': 'bin/check %s --tier thorough' % pid,
                'evidence_file': 'evidence/%s.json' % pid,
                'replay_cmd_template': 'bin/check %s --replay {path}' % pid,
                'engine': c['engine'],
                'level_claimed': {'category': c['level'], 'text': c['text'], 'design_ref': c['ref']},
                'level_note': c['note'],
                'technique': c['technique'],
            })
        else:
            na.append({'property_id': pid, 'reason': NOT_YET.get(pid, 'check not built yet in this round (planned, see DESIGN.md §2); not claimed until it runs end to end')})
    m = {
        'version': 1,
        'setup_cmd': 'tools/setup.sh',
        'hooks': {
            'guard': 'BXDECAY0_VERIF',
            'enable': 'tools/buildlib.sh passes -DBXDECAY0_VERIF in CMAKE_CXX_FLAGS; no source hook exists: seams are the public i_random interface, link-time interposition and -fno-access-control',
            'baseline_off_cmd': 'tools/baseline_off.sh',
            'source_commits': [],
            'add_only': True,
        },
        'engines': [
            {'name': 'dx', 'path': 'checks/dx.cc', 'serves_properties': ['C01', 'C02', 'C03', 'C04', 'C08'], 'kind_free_text': 'deviate-choice explorer: forced-position overlay on a counter-hash stream, threshold discovery on the transpiled Fortran model, layers A (edge coverage), B (deviation bounded), C (all discrete paths)'},
            {'name': 'c06', 'path': 'checks/c06.cc', 'serves_properties': ['C06'], 'kind_free_text': 'complete grid enumeration of initialisation requests against the reference rules'},
            {'name': 'c09', 'path': 'checks/c09.cc', 'serves_properties': ['C09'], 'kind_free_text': 'explicit-state BFS over API histories with a reference state machine'},
            {'name': 'c07', 'path': 'checks/c07.cc', 'serves_properties': ['C07'], 'kind_free_text': 'history enumerator with differential probe shots'},
            {'name': 'c11', 'path': 'checks/c11.cc', 'serves_properties': ['C11'], 'kind_free_text': 'reader window model checker and round-trip enumerator'},
            {'name': 'c10', 'path': 'checks/c10.cc', 'serves_properties': ['C10'], 'kind_free_text': 'MDL product enumerator with geometric invariants'},
            {'name': 'c16', 'path': 'checks/c16.cc', 'serves_properties': ['C16'], 'kind_free_text': 'kernel contract grids'},
            {'name': 'c14', 'path': 'checks/c14.cc', 'serves_properties': ['C14'], 'kind_free_text': 'gA dataset enumerator and sampler grid'},
            {'name': 'c05', 'path': 'checks/c05.cc', 'serves_properties': ['C05'], 'kind_free_text': 'catalogue enumerator and name-vs-scheme differential'},
            {'name': 'c12', 'path': 'checks/c12.cc', 'serves_properties': ['C12'], 'kind_free_text': 'cooperative scheduler (engine/sched.hpp) + preemption-bounded explorer over link-time interposed sync points; checks/c12_tsan.cc race pass'},
            {'name': 'c13', 'path': 'checks/c13.py', 'serves_properties': ['C13'], 'kind_free_text': 'CLI enumerator, API-equivalent recomputation (checks/c13api.cc), kill-point shim (engine/killpt/kp.c)'},
            {'name': 'c17', 'path': 'checks/c17.cc', 'serves_properties': ['C17'], 'kind_free_text': 'Geant4 stand-in (engine/g4stub) + configuration grid differential'},
            {'name': 'c15', 'path': 'checks/c15.cc', 'serves_properties': ['C15'], 'kind_free_text': 'bounded exhaustive mutator (engine/mutate.py) + per-mutant forked loader runs on the sanitizer build'},
            {'name': 'd0ref', 'path': 'tools/f2cxx.py', 'serves_properties': ['C01', 'C02', 'C06'], 'kind_free_text': 'reference model generated from resources/code/decay0/decay0_2020-04-20.for'},
        ],
        'checks': checks,
        'not_applicable': na,
        'notes': 'bin/check <id> --tier quick|thorough; builds of /repo are content-addressed under .cache (rebuilt whenever a source file changes). Known findings: known_findings.txt.',
    }
    json.dump(m, open(os.path.join(V, 'MANIFEST.json'), 'w'), indent=1)
    print('checks', len(checks), 'not_applicable', len(na))
if __name__ == '__main__':
    main()
