#!/bin/bash
# regress_seeded.sh [id-prefix...] : run every kept seeded change (seeded/<id>/patch.diff) against the checks recorded in its
# meta.json ("detected_by"), in isolation (tools/try_mutant_iso.sh: /repo itself is never touched), and report which are
# still detected. Exit 1 if one is no longer detected. Not a registered command: a regression test of the checks themselves.
cd "$(dirname "$0")/.."
fail=0
for d in seeded/*/; do
  id=$(basename "$d")
  if [ $# -gt 0 ]; then ok=0; for p in "$@"; do case "$id" in $p*) ok=1;; esac; done; [ $ok = 1 ] || continue; fi
  if python3 -c "import json,sys; sys.exit(0 if json.load(open('$d/meta.json')).get('obsolete') else 1)"; then echo "$id: obsolete (see meta.json)"; continue; fi
  checks=$(python3 -c "import json,sys; print(' '.join(json.load(open('$d/meta.json'))['detected_by']))")
  [ -z "$checks" ] && { echo "$id: no check recorded"; continue; }
  out=$(tools/try_mutant_iso.sh "$d/patch.diff" $checks 2>&1)
  if echo "$out" | grep -q "DETECTED"; then echo "$id: detected by $(echo "$out" | grep DETECTED | awk '{print $1}' | tr '\n' ' ')"; else echo "$id: NOT DETECTED :: $(echo "$out" | tail -1 | cut -c1-160)"; fail=1; fi
done
exit $fail
