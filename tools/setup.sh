#!/bin/bash
# setup_cmd: build everything the checks share (library variants, reference model, explorer) from files on disk.
set -euo pipefail
cd "$(dirname "$0")/.."
tools/buildlib.sh plain >/dev/null &
P1=$!
tools/buildref.sh >/dev/null
wait $P1
tools/buildharness.sh checks/dx.cc plain >/dev/null
echo "setup ok"
