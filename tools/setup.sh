#!/bin/bash
# setup_cmd: build everything the checks share (library variants, reference model, harnesses) from files on disk.
# Everything is content-addressed under .cache, so the checks rebuild on their own whenever /repo changes.
set -euo pipefail
cd "$(dirname "$0")/.."
tools/buildlib.sh plain >/dev/null &
P1=$!
tools/buildlib.sh asan >/dev/null &
P2=$!
tools/buildlib.sh tsan >/dev/null &
P3=$!
tools/buildlib.sh pattern >/dev/null &
P4=$!
tools/buildref.sh >/dev/null
wait $P1 $P2 $P3 $P4
pids=()
for h in dx c05 c06 c07 c09 c10 c11 c13api c14 c16; do tools/buildharness.sh checks/$h.cc plain >/dev/null & pids+=($!); done
tools/buildharness.sh checks/c12.cc plain -rdynamic >/dev/null & pids+=($!)
tools/buildharness.sh checks/c12_tsan.cc tsan -rdynamic >/dev/null & pids+=($!)
for h in dx c15 c10 c11 c09 c07 c14; do tools/buildharness.sh checks/$h.cc asan >/dev/null & pids+=($!); done
tools/buildharness.sh checks/dx.cc pattern >/dev/null & pids+=($!)
for p in "${pids[@]}"; do wait "$p"; done
echo "setup ok"
