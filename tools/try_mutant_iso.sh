#!/bin/bash
# try_mutant_iso.sh <patch.diff> <check-id>... : like try_mutant.sh, but without touching /repo: the change is applied to a
# scratch worktree (under /var/tmp, removed afterwards) which is bind-mounted over /repo in a private mount namespace, with
# a cache of its own; evidence and replays of the run go to a scratch copy of /verif's bookkeeping directories as well.
# Use while long runs are exploring the real /repo. (The registered commands themselves never use this.)
P=$(readlink -f "$1"); shift
WT=/var/tmp/iso_wt_$$
CA=${ISO_CACHE:-/var/tmp/iso_cache}
git -C /repo worktree add --detach "$WT" HEAD >/dev/null 2>&1 || { echo "cannot create worktree"; exit 1; }
trap 'git -C /repo worktree remove --force "$WT" >/dev/null 2>&1; git -C /repo worktree prune' EXIT
git -C "$WT" apply "$P" || { echo "patch does not apply"; exit 1; }
mkdir -p "$CA" /var/tmp/iso_evidence /var/tmp/iso_replays
for c in "$@"; do
  out=$(unshare -m sh -c "mount --bind $WT /repo && mount --bind /var/tmp/iso_evidence /verif/evidence && mount --bind /var/tmp/iso_replays /verif/replays && cd /verif && VERIF_CACHE=$CA timeout 3000 bin/check $c --tier ${TIER:-quick}" 2>&1)
  rc=$?
  nv=$(echo "$out" | grep -c "^VIOLATION")
  if [ $rc -eq 1 ] && [ $nv -gt 0 ]; then echo "$c DETECTED ($nv violation lines): $(echo "$out" | grep -A1 '^VIOLATION' | sed -n 2p | cut -c1-260)"; else echo "$c missed (rc=$rc): $(echo "$out" | tail -1 | cut -c1-200)"; fi
done
