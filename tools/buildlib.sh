#!/bin/bash
# Build /repo's CURRENT working tree (library + bxdecay0-run) with the project's own CMake
# definition into a content-addressed cache directory and print that directory.
#   usage: buildlib.sh <variant>     variant in {plain, asan, tsan, pattern}
# The cache key is a hash of every input of the build (sources, cmake files, resources list),
# so an edit to /repo always yields a fresh build; an unchanged tree reuses the previous one.
set -euo pipefail
VARIANT=${1:-plain}
REPO=${VERIF_REPO:-/repo}
VERIF=$(cd "$(dirname "$0")/.." && pwd)
CACHE=${VERIF_CACHE:-$VERIF/.cache}
mkdir -p "$CACHE"
case "$VARIANT" in
  plain) FLAGS="-O2 -g1 -fno-omit-frame-pointer -fno-optimize-sibling-calls" ;;
  asan)  FLAGS="-O1 -g1 -fno-omit-frame-pointer -fsanitize=address,undefined,float-cast-overflow -fno-sanitize=float-divide-by-zero -fsanitize-recover=all -D_GLIBCXX_ASSERTIONS" ;;
  tsan)  FLAGS="-O1 -g1 -fno-omit-frame-pointer -fsanitize=thread" ;;
  # unoptimised, every automatic variable pre-filled with a byte pattern: a read of a never-assigned local then yields
  # a deterministic absurd value instead of whatever the optimiser substitutes for the undefined value
  pattern) FLAGS="-O0 -g1 -ftrivial-auto-var-init=pattern" ;;
  *) echo "unknown variant $VARIANT" >&2; exit 2 ;;
esac
FLAGS="$FLAGS -DBXDECAY0_VERIF"
KEY=$( (cd "$REPO" && find CMakeLists.txt cmake bxdecay0 programs extensions bxdecay0-config.in -type f ! -path '*/testing/*' -print0 2>/dev/null | sort -z | xargs -0 sha256sum; echo "$VARIANT $FLAGS") | sha256sum | cut -c1-16)
DIR="$CACHE/build-$VARIANT-$KEY"
exec 9>"$CACHE/lock-$VARIANT"
flock 9
if [ ! -f "$DIR/.ok" ]; then
  # drop older builds of this variant (disk is limited)
  find "$CACHE" -maxdepth 1 -name "build-$VARIANT-*" ! -name "build-$VARIANT-$KEY" -exec rm -rf {} + 2>/dev/null || true
  rm -rf "$DIR"; mkdir -p "$DIR"
  cmake -S "$REPO" -B "$DIR" -G Ninja -DBUILD_TESTING=OFF -DCMAKE_BUILD_TYPE=None \
        -DCMAKE_CXX_FLAGS="$FLAGS" -DCMAKE_C_FLAGS="$FLAGS" >"$DIR/cmake.log" 2>&1 || { cat "$DIR/cmake.log" >&2; exit 3; }
  cmake --build "$DIR" -j16 >"$DIR/build.log" 2>&1 || { tail -50 "$DIR/build.log" >&2; exit 3; }
  touch "$DIR/.ok"
fi
echo "$DIR"
