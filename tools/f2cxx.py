#!/usr/bin/env python3
"""Prototype F77 -> C++ transpiler for the Decay0 dialect (feasibility study)."""
import re, sys, collections

SKIP_UNITS = {'decay0', 'genbbdia'}
INTRINSICS = {
    'sqrt': 'std::sqrt', 'exp': 'std::exp', 'alog': 'std::log', 'log': 'std::log', 'alog10': 'std::log10',
    'cos': 'std::cos', 'sin': 'std::sin', 'tan': 'std::tan', 'acos': 'std::acos', 'asin': 'std::asin',
    'atan': 'std::atan', 'atan2': 'std::atan2', 'abs': 'F_ABS', 'iabs': 'F_ABS', 'amax1': 'F_MAX', 'amin1': 'F_MIN', 'dmax1': 'F_MAX', 'dmin1': 'F_MIN',
    'max0': 'F_MAX', 'min0': 'F_MIN', 'max': 'F_MAX', 'min': 'F_MIN', 'int': 'F_INT', 'nint': 'F_NINT',
    'anint': 'F_ANINT', 'float': 'F_REAL', 'real': 'F_REAL', 'dble': 'F_REAL', 'sngl': 'F_REAL', 'mod': 'F_MOD', 'amod': 'F_MOD',
    'sign': 'F_SIGN', 'cmplx': 'F_CMPLX', 'cabs': 'std::abs', 'dsqrt': 'std::sqrt', 'dexp': 'std::exp', 'dlog': 'std::log',
    'dabs': 'F_ABS', 'ifix': 'F_INT',
}
INT_RESULT = {'int', 'nint', 'max0', 'min0', 'iabs', 'ifix'}

def read_statements(path):
    """Return list of (lineno, label, text) with continuation lines joined, comments stripped."""
    out = []
    cur = None
    for no, ln in enumerate(open(path, encoding='latin-1').read().split('\n'), 1):
        ln = ln.rstrip('\r\n')
        if not ln.strip():
            continue
        if ln[0] in 'cC*dD!':
            continue
        # continuation: 5 blanks + nonblank/non-0 in col 6 ; or TAB + digit 1-9
        m = re.match(r'^( {5}[^ 0]|\t[1-9])(.*)$', ln)
        if m and cur is not None:
            cur[2] += strip_comment(m.group(2))
            continue
        if cur is not None:
            out.append(tuple(cur))
        # label field
        if ln[0] == '\t':
            label, body = '', ln[1:]
        else:
            m2 = re.match(r'^([0-9 ]{0,5})\t(.*)$', ln)
            if m2:
                label, body = m2.group(1).strip(), m2.group(2)
            else:
                label, body = ln[:5].strip(), ln[6:] if len(ln) > 6 else ''
        cur = [no, label, strip_comment(body)]
    if cur is not None:
        out.append(tuple(cur))
    return out

def strip_comment(s):
    o = ''
    q = False
    for ch in s:
        if ch == "'":
            q = not q
        if ch == '!' and not q:
            break
        o += ch
    return o.rstrip()

TOK = re.compile(r"""
   (?P<str>'(?:[^']|'')*')
 | (?P<num>(?:\d+\.\d*|\.\d+|\d+)(?:[edED][+-]?\d+)?)
 | (?P<dotop>\.(?:eq|ne|lt|le|gt|ge|and|or|not|true|false)\.)
 | (?P<name>[A-Za-z_][A-Za-z0-9_]*)
 | (?P<pow>\*\*)
 | (?P<op>//|[-+*/(),=:])
 | (?P<ws>\s+)
""", re.X | re.I)

def tokenize(s):
    toks = []
    pos = 0
    while pos < len(s):
        # special: number followed by .eq. etc:  "1.eq." ambiguity -> handle "digits." followed by letters+'.'
        m = re.match(r'(\d+)(\.(?:eq|ne|lt|le|gt|ge|and|or|not)\.)', s[pos:], re.I)
        if m:
            toks.append(('num', m.group(1)))
            toks.append(('dotop', m.group(2).lower()))
            pos += m.end()
            continue
        m = TOK.match(s, pos)
        if not m:
            raise SyntaxError('cannot tokenize: %r at %r' % (s, s[pos:pos + 10]))
        pos = m.end()
        k = m.lastgroup
        if k == 'ws':
            continue
        v = m.group(k)
        if k in ('name', 'dotop'):
            v = v.lower()
        toks.append((k, v))
    return toks

QUIET_UNITS = {'tgold'}
TABLE_UNITS = {'bb'}
CLAMP_UNITS = {'fermi'}   # its only comparison: if (E < 50e-6) E = 50e-6
SHAPE_UNITS = {'beta', 'beta1', 'beta2', 'beta_1fu'}


class Var:
    def __init__(self, name, typ, dims=None, charlen=None):
        self.name, self.typ, self.dims, self.charlen = name, typ, dims, charlen
        self.common = None  # (block, index)
        self.is_arg = False
        self.is_external = False
        self.saved = False

class Unit:
    def __init__(self, kind, name, args, rettype, lineno):
        self.kind, self.name, self.args, self.rettype, self.lineno = kind, name, args, rettype, lineno
        self.vars = collections.OrderedDict()
        self.stmts = []
        self.externals = set()
        self.explicit = {}
        self.dims = {}
        self.charlen = {}
        self.commons = []  # (block, [names])
        self.saves = set()
        self.data = []
        self.params = []

def implicit_type(name):
    return 'int' if name[0] in 'ijklmn' else 'R'

def split_top(s, sep=','):
    parts = []
    depth = 0
    cur = ''
    q = False
    for ch in s:
        if ch == "'":
            q = not q
        if not q:
            if ch == '(':
                depth += 1
            elif ch == ')':
                depth -= 1
            elif ch == sep and depth == 0:
                parts.append(cur)
                cur = ''
                continue
        cur += ch
    parts.append(cur)
    return [p.strip() for p in parts]

class Transpiler:
    def __init__(self, stmts):
        self.stmts = stmts
        self.units = []
        self.common_layout = {}  # block -> list of (typ, dims, charlen)
        self.funcs = {}  # name -> Unit
        self.sites = 0

    # ---------- pass 1: split into units, collect declarations
    def parse_units(self):
        u = None
        for no, label, text in self.stmts:
            t = text.strip()
            tl = t.lower()
            m = re.match(r'^(?:(real|integer|double precision|logical|complex)(?:\*\d+)?\s+)?(program|subroutine|function|block\s*data)\s*([a-z_0-9]*)\s*(?:\((.*)\))?\s*$', tl)
            if m and not re.match(r'^[a-z_0-9]+\s*=', tl):
                kind = m.group(2).replace(' ', '')
                name = m.group(3) or 'blockdata'
                args = [a.strip() for a in (m.group(4) or '').split(',') if a.strip()]
                rt = None
                if kind == 'function':
                    rt = {'real': 'R', 'integer': 'int', 'double precision': 'R', 'logical': 'bool', 'complex': 'C', None: implicit_type(name)}[m.group(1)]
                u = Unit(kind, name, args, rt, no)
                self.units.append(u)
                continue
            if tl == 'end':
                u = None
                continue
            if u is None:
                raise SyntaxError('statement outside unit at line %d: %s' % (no, t))
            u.stmts.append((no, label, t))
        for u in self.units:
            if u.kind in ('subroutine', 'function'):
                self.funcs[u.name] = u

    DECL = re.compile(r'^(character|real|integer|logical|complex|double\s*precision|dimension|common|external|save|data|parameter|implicit)\b', re.I)

    def collect_decls(self, u):
        body = []
        for no, label, t in u.stmts:
            tl = t.lower()
            m = self.DECL.match(tl)
            if m and not re.match(r'^[a-z_0-9]+(\(.*\))?\s*=', tl.replace(' ', '')) or (m and m.group(1) in ('data', 'common', 'dimension', 'external', 'save', 'parameter', 'character', 'logical', 'complex')):
                kw = m.group(1).replace(' ', '')
                rest = t[m.end():].strip()
                if kw in ('real', 'integer', 'logical', 'complex', 'doubleprecision', 'character'):
                    typ = {'real': 'R', 'integer': 'int', 'logical': 'bool', 'complex': 'C', 'doubleprecision': 'R', 'character': 'S'}[kw]
                    deflen = None
                    mm = re.match(r'^\*\s*(\d+)\s*(.*)$', rest)
                    if mm:
                        deflen = int(mm.group(1)); rest = mm.group(2)
                    for item in split_top(rest):
                        mm = re.match(r'^([A-Za-z_0-9]+)\s*(?:\(([^)]*)\))?\s*(?:\*\s*(\d+))?$', item)
                        if not mm:
                            raise SyntaxError('bad decl item %r line %d' % (item, no))
                        n = mm.group(1).lower()
                        u.explicit[n] = typ
                        if mm.group(2):
                            u.dims[n] = [d.strip() for d in mm.group(2).split(',')]
                        if typ == 'S':
                            u.charlen[n] = int(mm.group(3)) if mm.group(3) else (deflen or 1)
                elif kw == 'dimension':
                    for item in split_top(rest):
                        mm = re.match(r'^([A-Za-z_0-9]+)\s*\(([^)]*)\)$', item)
                        u.dims[mm.group(1).lower()] = [d.strip() for d in mm.group(2).split(',')]
                elif kw == 'common':
                    mm = re.match(r'^/\s*([A-Za-z_0-9]+)\s*/\s*(.*)$', rest)
                    blk = mm.group(1).lower()
                    names = []
                    for item in split_top(mm.group(2)):
                        m3 = re.match(r'^([A-Za-z_0-9]+)\s*(?:\(([^)]*)\))?$', item)
                        n = m3.group(1).lower()
                        if m3.group(2):
                            u.dims[n] = [d.strip() for d in m3.group(2).split(',')]
                        names.append(n)
                    u.commons.append((blk, names))
                elif kw == 'external':
                    for item in split_top(rest):
                        u.externals.add(item.lower())
                elif kw == 'save':
                    for item in split_top(rest):
                        u.saves.add(item.lower())
                elif kw == 'data':
                    u.data.append((no, rest))
                elif kw == 'parameter':
                    u.params.append(rest)
                elif kw == 'implicit':
                    pass
                continue
            body.append((no, label, t))
        u.body = body

    def vtype(self, u, n):
        if n in u.explicit:
            return u.explicit[n]
        return implicit_type(n)

    def build_commons(self):
        for u in self.units:
            for blk, names in u.commons:
                layout = [(self.vtype(u, n), tuple(u.dims.get(n, ())), u.charlen.get(n)) for n in names]
                if blk not in self.common_layout:
                    self.common_layout[blk] = layout
                else:
                    old = self.common_layout[blk]
                    if len(layout) > len(old):
                        if old != layout[:len(old)]:
                            print('WARNING common /%s/ layout mismatch in %s: %s vs %s' % (blk, u.name, old, layout), file=sys.stderr)
                        self.common_layout[blk] = layout
                    elif old[:len(layout)] != layout:
                        print('WARNING common /%s/ layout mismatch in %s: %s vs %s' % (blk, u.name, old, layout), file=sys.stderr)

    # ---------- expressions
    def parse_expr(self, u, toks):
        self.toks = toks
        self.p = 0
        self.u = u
        e = self.p_or()
        if self.p != len(toks):
            raise SyntaxError('trailing tokens %r' % (toks[self.p:],))
        return e

    def peek(self):
        return self.toks[self.p] if self.p < len(self.toks) else (None, None)

    def eat(self, v=None):
        k, val = self.peek()
        if v is not None and val != v:
            raise SyntaxError('expected %r got %r in %r' % (v, val, self.toks))
        self.p += 1
        return k, val

    def p_or(self):
        l = self.p_and()
        while self.peek()[1] == '.or.':
            self.eat(); r = self.p_and(); l = ('(%s || %s)' % (l[0], r[0]), 'bool')
        return l

    def p_and(self):
        l = self.p_not()
        while self.peek()[1] == '.and.':
            self.eat(); r = self.p_not(); l = ('(%s && %s)' % (l[0], r[0]), 'bool')
        return l

    def p_not(self):
        if self.peek()[1] == '.not.':
            self.eat(); r = self.p_not(); return ('(!%s)' % r[0], 'bool')
        return self.p_rel()

    REL = {'.eq.': 'EQ', '.ne.': 'NE', '.lt.': 'LT', '.le.': 'LE', '.gt.': 'GT', '.ge.': 'GE'}
    CREL = {'.eq.': '==', '.ne.': '!=', '.lt.': '<', '.le.': '<=', '.gt.': '>', '.ge.': '>='}

    def p_rel(self):
        l = self.p_add()
        if self.peek()[1] in self.REL:
            op = self.eat()[1]
            r = self.p_add()
            if l[1] == 'S' or r[1] == 'S':
                return ('fs_%s(%s, %s)' % (self.REL[op].lower(), l[0], r[0]), 'bool')
            if l[1] == 'int' and r[1] == 'int':
                return ('(%s %s %s)' % (l[0], self.CREL[op], r[0]), 'bool')
            self.sites += 1
            # comparisons inside the golden-section search are near-ties by construction (the bracket converges on the
            # extremum) and its result is continuous in their outcome: they are excluded from the robustness margin
            if getattr(self, 'u', None) is not None and self.u.name.lower() in QUIET_UNITS:
                return ('QCMP_%s(%s, %s, %d)' % (self.REL[op], l[0], r[0], self.curline), 'bool')
            # rejection tests of the beta samplers compare against Fermi-function-weighted spectra, where the
            # reference's short constants (0.511, 3.1415927) are worth up to ~5e-5 relative: own margin class
            # a clamp (if (x < c) x = c) is continuous in its comparison: logged for threshold discovery, no margin
            # (the spectrum functions fe1_modN / fe2_modN / fe12_modN return 0 beyond the end-point, which their own
            #  (e0-e1-e2)^n or momentum factors approach continuously: same class)
            if getattr(self, 'force_clamp', False) or (getattr(self, 'u', None) is not None and (self.u.name.lower() in CLAMP_UNITS or re.fullmatch(r'fe\d*_mod\d+', self.u.name.lower()))):
                return ('CCMP_%s(%s, %s, %d)' % (self.REL[op], l[0], r[0], self.curline), 'bool')
            # comparisons of the double-beta kernel against its tabulated / integrated spectra: their noise level is measured
            # per configuration (first-lepton table of port vs model) and must not be charged to branch decisions elsewhere
            if getattr(self, 'u', None) is not None and self.u.name.lower() in TABLE_UNITS:
                # only the tests that read the tables or the sampled spectrum values carry the table noise; the angular
                # rejection tests of the kernel are closed forms of the two energies (shape class, like the beta samplers)
                txt = (l[0] + ' ' + r[0]).lower()
                if any(w in txt for w in ('spthe1', 'spthe2', 'spmax', 'f2max', 'fe2')):
                    return ('TCMP_%s(%s, %s, %d)' % (self.REL[op], l[0], r[0], self.curline), 'bool')
                return ('SCMP_%s(%s, %s, %d)' % (self.REL[op], l[0], r[0], self.curline), 'bool')
            if getattr(self, 'u', None) is not None and self.u.name.lower() in SHAPE_UNITS:
                return ('SCMP_%s(%s, %s, %d)' % (self.REL[op], l[0], r[0], self.curline), 'bool')
            return ('CMP_%s(%s, %s, %d)' % (self.REL[op], l[0], r[0], self.curline), 'bool')
        return l

    def p_add(self):
        k, v = self.peek()
        if v in ('-', '+'):
            self.eat()
            r = self.p_mul()
            l = ('(%s%s)' % (v, r[0]), r[1])
        else:
            l = self.p_mul()
        while self.peek()[1] in ('+', '-') or self.peek()[1] == '//':
            op = self.eat()[1]
            r = self.p_mul()
            if op == '//':
                l = ('fs_cat(%s,%s)' % (l[0], r[0]), 'S')
            else:
                l = ('(%s %s %s)' % (l[0], op, r[0]), self.promote(l[1], r[1]))
        return l

    def promote(self, a, b):
        if 'C' in (a, b):
            return 'C'
        if 'R' in (a, b):
            return 'R'
        return 'int'

    def p_mul(self):
        l = self.p_pow()
        while self.peek()[1] in ('*', '/'):
            op = self.eat()[1]
            r = self.p_pow()
            t = self.promote(l[1], r[1])
            if t == 'C':
                a = l[0] if l[1] == 'C' else 'C(%s)' % l[0]
                b = r[0] if r[1] == 'C' else 'C(%s)' % r[0]
                l = ('(%s %s %s)' % (a, op, b), t)
            else:
                l = ('(%s %s %s)' % (l[0], op, r[0]), t)
        return l

    def p_pow(self):
        base = self.p_unary()
        if self.peek()[0] == 'pow':
            self.eat()
            # right assoc; exponent may have unary sign
            k, v = self.peek()
            if v in ('-', '+'):
                self.eat()
                ex = self.p_pow()
                ex = ('(%s%s)' % (v, ex[0]), ex[1])
            else:
                ex = self.p_pow()
            if ex[1] == 'int':
                if base[1] == 'int':
                    return ('F_IPOWI(%s, %s)' % (base[0], ex[0]), 'int')
                return ('F_POWI(%s, %s)' % (base[0], ex[0]), base[1])
            return ('std::pow((R)(%s), (R)(%s))' % (base[0], ex[0]), 'R')
        return base

    def p_unary(self):
        k, v = self.peek()
        if v in ('-', '+'):
            self.eat()
            r = self.p_unary()
            return ('(%s%s)' % (v, r[0]), r[1])
        return self.p_primary()

    def p_primary(self):
        k, v = self.eat()
        u = self.u
        if k == 'num':
            if re.search(r'[.eEdD]', v):
                v2 = re.sub(r'[dD]', 'e', v)
                if v2.endswith('.'):
                    v2 += '0'
                if re.match(r'^\d+\.[eE]', v2):
                    v2 = v2.replace('.e', '.0e').replace('.E', '.0E')
                return ('((R)%s)' % v2, 'R')
            return (str(int(v)), 'int')
        if k == 'str':
            s = v[1:-1].replace("''", "'")
            return ('FS("%s")' % s.replace('\\', '\\\\').replace('"', '\\"'), 'S')
        if k == 'dotop':
            if v == '.true.':
                return ('true', 'bool')
            if v == '.false.':
                return ('false', 'bool')
            raise SyntaxError('unexpected %s' % v)
        if v == '(':
            e = self.p_or()
            # complex literal (a,b) not used
            self.eat(')')
            return ('(%s)' % e[0], e[1])
        if k == 'name':
            n = v
            if self.peek()[1] == '(':
                self.eat('(')
                # substring or array or call
                args = []
                is_sub = False
                if self.peek()[1] == ':':
                    is_sub = True
                while self.peek()[1] != ')':
                    if self.peek()[1] == ':':
                        self.eat(); is_sub = True
                        args.append(':')
                        continue
                    args.append(self.p_or())
                    if self.peek()[1] == ',':
                        self.eat()
                self.eat(')')
                if is_sub or (self.is_var(u, n) and self.vtype(u, n) == 'S' and n not in u.dims):
                    lo = args[0][0]
                    hi = args[-1][0]
                    return ('%s.sub(%s,%s)' % (self.cname(n), lo, hi), 'S')
                if n in u.dims:
                    self.touch(u, n)
                    return ('%s(%s)' % (self.cname(n), ', '.join(a[0] for a in args)), self.vtype(u, n))
                if n in ('rnd1', 'rndm'):
                    return ('DRAW(%d)' % self.curline, 'R')
                if n in INTRINSICS and n not in self.funcs:
                    t = 'int' if n in INT_RESULT else None
                    if t is None:
                        if n in ('abs', 'max', 'min', 'mod', 'sign'):
                            t = 'int'
                            for a in args:
                                t = self.promote(t, a[1])
                        elif n == 'cmplx':
                            t = 'C'
                        else:
                            t = 'R'
                    if n in ('int', 'nint', 'ifix') :
                        return ('%s(%s, %d)' % (INTRINSICS[n], ', '.join(a[0] for a in args), self.curline), t)
                    if INTRINSICS[n].startswith('std::') and n != 'cabs':
                        return ('%s((R)(%s))' % (INTRINSICS[n], '), (R)('.join(a[0] for a in args)), t)
                    return ('%s(%s)' % (INTRINSICS[n], ', '.join(a[0] for a in args)), t)
                # user function call
                rt = self.func_rettype(u, n)
                self.called.add(n)
                return ('%s(%s)' % (self.fname(n), ', '.join(self.as_arg(a) for a in args)), rt)
            # plain name
            if n in u.externals or n in getattr(u,'funcargs',set()):
                self.called.add(n)
                return ('%s' % self.fname(n), 'F')
            self.touch(u, n)
            return (self.cname(n), self.vtype(u, n))
        raise SyntaxError('unexpected token %r %r' % (k, v))

    def func_rettype(self, u, n):
        if n in u.explicit:
            return u.explicit[n]
        if n in self.funcs and self.funcs[n].rettype:
            return self.funcs[n].rettype
        return implicit_type(n)

    def is_var(self, u, n):
        return n in u.vars or n in u.explicit or n in u.dims or n in u.args

    def as_arg(self, a):
        txt, t = a
        if t == 'F':
            return txt
        if re.match(r'^[a-z_][a-z_0-9]*(\([^()]*\))?$', txt) and not txt.startswith('FS('):
            return txt  # lvalue (variable or array element)
        ct = {'R': 'R', 'int': 'int', 'bool': 'bool', 'S': 'fstr', 'C': 'C'}[t]
        return 'TMP<%s>(%s)' % (ct, txt)

    def touch(self, u, n):
        if n not in u.vars:
            u.vars[n] = Var(n, self.vtype(u, n), u.dims.get(n), u.charlen.get(n))

    def cname(self, n):
        if n in ('d',):
            return 'd_'
        return 'v_' + n

    def fname(self, n):
        return 'f_' + n

    # ---------- statements
    def gen_unit(self, u):
        self.u = u
        self.called = set()
        out = []
        self.collect_decls(u)
        u.funcargs=set()
        import re as _re
        alltext=' '.join(t.lower() for _,_,t in u.body)
        for n in u.args:
            if n not in u.dims and self.vtype(u,n)!='S' and _re.search(r'(?<![a-z_0-9])'+_re.escape(n)+r'\s*\(', alltext):
                u.funcargs.add(n)
        for n in u.args:
            self.touch(u, n); u.vars[n].is_arg = True
        for blk, names in u.commons:
            for i, n in enumerate(names):
                self.touch(u, n); u.vars[n].common = (blk, i)
        if u.kind == 'function':
            self.touch(u, u.name)
        body = []
        labels_used = set()
        for no, label, t in u.body:
            self.curline = no
            try:
                code = self.gen_stmt(u, t, labels_used)
            except Exception as e:
                raise SyntaxError('line %d: %s :: %s' % (no, t, e))
            if label:
                body.append('L%s: ;' % label)
            body.append('/*%d*/ %s' % (no, code))
        # signature
        def ctype(v):
            base = {'R': 'R', 'int': 'int', 'bool': 'bool', 'C': 'C', 'S': 'fstr'}[v.typ]
            return base
        args = []
        for n in u.args:
            v = u.vars[n]
            if n in u.externals or self.arg_is_func(u, n):
                args.append('R (*%s)(R&)' % self.fname(n))
            elif v.dims:
                args.append('farr<%s>& %s' % (ctype(v), self.cname(n)))
            else:
                args.append('%s& %s' % (ctype(v), self.cname(n)))
        ret = 'void' if u.kind != 'function' else {'R': 'R', 'int': 'int', 'bool': 'bool', 'C': 'C'}[u.rettype]
        out.append('%s %s(%s)' % (ret, self.fname(u.name), ', '.join(args)))
        out.append('{')
        # locals
        for n, v in u.vars.items():
            if v.is_arg:
                continue
            if v.common:
                blk, i = v.common
                out.append('  auto& %s = g.c_%s.m%d;' % (self.cname(n), blk, i))
                continue
            if n in u.externals:
                continue
            if n in u.saves:
                # SAVEd locals live at namespace scope (sv_<unit>_<name>) so that a harness can read them
                gname = 'sv_%s_%s' % (u.name, n)
                if v.dims:
                    dims = ','.join(str(self.const_dim(u, d)) for d in v.dims)
                    decl = 'farr<%s> %s' % (ctype(v), gname); init = '(%s)' % dims
                elif v.typ == 'S':
                    decl = 'fstr %s' % gname; init = '(%d)' % (v.charlen or 1)
                else:
                    decl = '%s %s' % (ctype(v), gname); init = ' = 0'
                self.saved_globals.append((decl, init))
                out.append('  auto& %s = %s;' % (self.cname(n), gname))
                continue
            static = ''
            if v.dims:
                dims = ','.join(str(self.const_dim(u, d)) for d in v.dims)
                out.append('  %sfarr<%s> %s(%s);' % (static, ctype(v), self.cname(n), dims))
            elif v.typ == 'S':
                out.append('  %sfstr %s(%d);' % (static, self.cname(n), v.charlen or 1))
            else:
                out.append('  %s%s %s; %s' % (static, ctype(v), self.cname(n), '' if static else '%s = %s;' % (self.cname(n), '0')))
        for p in u.params:
            m = re.match(r'^\(\s*([a-z_0-9]+)\s*=\s*(.*)\)$', p.strip(), re.I)
            out.append('  %s = %s;' % (self.cname(m.group(1).lower()), m.group(2)))
        if u.name.lower() in SHAPE_UNITS:
            # call trace of the beta samplers (unit, scalar input arguments): lets a harness find calls of different
            # decay schemes that agree in some arguments and differ in others ("collision histories")
            targs = [n for n in u.args if n.lower() not in ('tcnuc', 'thnuc', 'tdnuc')]
            out.append('  TRACE_CALL(%d, {%s});' % (sorted(SHAPE_UNITS).index(u.name.lower()) + 1, ', '.join('(double)%s' % self.cname(n) for n in targs)))
        out.extend('  ' + b for b in body)
        if u.kind == 'function':
            out.append('  return %s;' % self.cname(u.name))
        out.append('}')
        return '\n'.join(out)

    def arg_is_func(self, u, n):
        return n in u.externals or n in u.funcargs

    def const_dim(self, u, d):
        return int(d)

    def find_close(self, s, start):
        depth = 0
        q = False
        for i in range(start, len(s)):
            ch = s[i]
            if ch == "'":
                q = not q
            if q:
                continue
            if ch == '(':
                depth += 1
            elif ch == ')':
                depth -= 1
                if depth == 0:
                    return i
        raise SyntaxError('unbalanced')

    def expr(self, u, s):
        o=''; q=False
        for ch in s:
            if ch=="'": q=not q
            if ch in ' \t' and not q: continue
            o+=ch
        return self.parse_expr(u, tokenize(o))

    def gen_stmt(self, u, t, labels_used):
        tl = t.lower().strip()
        ns = re.sub(r'\s+', '', tl)
        if ns.startswith('if('):
            i = t.lower().index('(')
            j = self.find_close(t, i)
            # running maximum / minimum and clamps: "if (x .gt. m) m = x", "if (x .lt. c) x = c" are continuous in their
            # comparison (a near-tie changes the result by the size of the tie): no robustness margin
            cs = re.sub(r'\s+', '', t[i + 1:j].lower())
            rs = re.sub(r'\s+', '', t[j + 1:].lower())
            mm = re.match(r'^(.+)\.(gt|ge|lt|le)\.(.+)$', cs)
            self.force_clamp = bool(mm and '.and.' not in cs and '.or.' not in cs and rs in (mm.group(3) + '=' + mm.group(1), mm.group(1) + '=' + mm.group(3)))
            cond = self.expr(u, t[i + 1:j])[0]
            self.force_clamp = False
            rest = t[j + 1:].strip()
            rl = rest.lower()
            if rl == 'then':
                return 'if (%s) {' % cond
            m = re.match(r'^(\d+)\s*,\s*(\d+)\s*,\s*(\d+)$', rest)
            if m:
                raise SyntaxError('arithmetic if')
            return 'if (%s) { %s }' % (cond, self.gen_stmt(u, rest, labels_used))
        if ns.startswith('elseif('):
            i = t.index('(')
            j = self.find_close(t, i)
            cond = self.expr(u, t[i + 1:j])[0]
            return '} else if (%s) {' % cond
        if ns == 'else':
            return '} else {'
        if ns in ('endif',):
            return '}'
        if ns in ('enddo',):
            return '}'
        if ns == 'continue':
            return ';'
        if ns == 'return':
            if u.kind == 'function':
                return 'return %s;' % self.cname(u.name)
            return 'return;'
        if ns == 'stop':
            return 'F_STOP();'
        m = re.match(r'^go\s*to\s*(\d+)$', tl)
        if m:
            return 'goto L%s;' % m.group(1)
        m = re.match(r'^go\s*to\s*\(([\d,\s]+)\)\s*,?\s*(.+)$', tl)
        if m:
            labs = [x.strip() for x in m.group(1).split(',')]
            e = self.expr(u, m.group(2))[0]
            return 'switch (%s) { %s }' % (e, ' '.join('case %d: goto L%s;' % (i + 1, l) for i, l in enumerate(labs)))
        m = re.match(r'^do\s+(?:(\d+)\s+)?([a-z_0-9]+)\s*=\s*(.*)$', tl)
        if m and ',' in m.group(3):
            if m.group(1):
                raise SyntaxError('labelled do')
            var = m.group(2)
            parts = split_top(t[t.index('=') + 1:])
            self.touch(u, var)
            lo = self.expr(u, parts[0])[0]
            hi = self.expr(u, parts[1])[0]
            step = self.expr(u, parts[2])[0] if len(parts) > 2 else '1'
            v = self.cname(var)
            return 'for (int hi_%s = %s, st_%s = %s, %s_ = (%s = %s, 0); st_%s > 0 ? %s <= hi_%s : %s >= hi_%s; %s += st_%s) {' % (
                var, hi, var, step, var, v, lo, var, v, var, v, var, v, var)
        m = re.match(r'^call\s+([a-z_0-9]+)\s*(?:\((.*)\))?$', t.strip(), re.I)
        if m:
            n = m.group(1).lower()
            args = []
            if m.group(2) is not None and m.group(2).strip():
                for a in split_top(m.group(2)):
                    args.append(self.as_arg(self.expr(u, a)))
            self.called.add(n)
            return 'CALL(%d); %s(%s); RET();' % (self.curline, self.fname(n), ', '.join(args))
        if re.match(r'^(print|write|read|format|open|close)\b', tl) or re.match(r'^(print|write|read|format|open|close)[\s(*]', tl):
            if tl.startswith('read'):
                return 'F_UNSUPPORTED_IO(%d);' % self.curline
            return '/* io */;'
        # assignment
        m = re.match(r'^([A-Za-z_0-9]+)\s*(\(.*?\))?\s*=(?!=)(.*)$', t.strip())
        if m:
            # find top-level '=' properly
            s = t.strip()
            depth = 0
            q = False
            eq = None
            for i, ch in enumerate(s):
                if ch == "'":
                    q = not q
                if q:
                    continue
                if ch == '(':
                    depth += 1
                elif ch == ')':
                    depth -= 1
                elif ch == '=' and depth == 0:
                    eq = i
                    break
            lhs, rhs = s[:eq].strip(), s[eq + 1:].strip()
            l = self.expr(u, lhs)
            r = self.expr(u, rhs)
            if l[1] == 'S':
                return '%s.assign(%s);' % (l[0], r[0])
            if l[1] == 'int' and r[1] == 'R':
                return '%s = F_TRUNC(%s);' % (l[0], r[0])
            if l[1] == 'R' and r[1] == 'C':
                return '%s = std::real(%s);' % (l[0], r[0])
            return '%s = %s;' % (l[0], r[0])
        raise SyntaxError('unknown statement')

def main():
    """usage: f2cxx.py <decay0.for> <outdir> [nchunks]
    writes <outdir>/ref.h (Globals, prototypes) and <outdir>/ref_<k>.cc (units, size-balanced chunks)"""
    import os, hashlib
    src = sys.argv[1]
    outdir = sys.argv[2]
    nchunks = int(sys.argv[3]) if len(sys.argv) > 3 else 8
    os.makedirs(outdir, exist_ok=True)
    stmts = read_statements(src)
    tp = Transpiler(stmts)
    tp.parse_units()
    for u in tp.units:
        tp.collect_decls(u)
    tp.build_commons()
    tp.saved_globals = []
    ok = 0
    bad = 0
    chunks = []
    protos = []
    for u in tp.units:
        if u.name in SKIP_UNITS or u.kind in ('program',):
            continue
        if u.kind == 'blockdata':
            continue
        try:
            code = tp.gen_unit(u)
            lines = code.split('\n')
            if u.name == 'bb':
                # unit-entry hook: lets a harness evaluate GENBBsub's acceptance rules without running the kernel
                lines.insert(2, '  if (mon.stub_bb) { mon.bb_calls++; return; }')
                code = '\n'.join(lines)
            chunks.append(code)
            protos.append(lines[0] + ';')
            ok += 1
        except SyntaxError as e:
            bad += 1
            print('FAIL unit %s: %s' % (u.name, e), file=sys.stderr)
    print('units ok=%d bad=%d compare_sites=%d' % (ok, bad, tp.sites), file=sys.stderr)
    if bad:
        sys.exit(1)
    sha = hashlib.sha256(open(src, 'rb').read()).hexdigest()
    with open(os.path.join(outdir, 'ref.h'), 'w') as f:
        f.write('// generated by f2cxx.py from %s sha256=%s\n#pragma once\n#include "d0rt.h"\nnamespace d0ref {\n' % (os.path.basename(src), sha))
        f.write('static const char* const REF_SHA256 = "%s";\n' % sha)
        f.write('struct Globals {\n')
        for blk, lay in tp.common_layout.items():
            f.write('  struct { ')
            for i, (typ, dims, cl) in enumerate(lay):
                ct = {'R': 'R', 'int': 'int', 'bool': 'bool', 'C': 'C', 'S': 'fstr'}[typ]
                if dims:
                    f.write('farr<%s> m%d{%s}; ' % (ct, i, ','.join(dims)))
                elif typ == 'S':
                    f.write('fstr m%d{%d}; ' % (i, cl or 1))
                else:
                    f.write('%s m%d = 0; ' % (ct, i))
            f.write('} c_%s;\n' % blk)
        f.write('};\nextern Globals g;\nvoid init_blockdata();\n')
        for decl, init in tp.saved_globals:
            f.write('extern %s;\n' % decl)
        for p in protos:
            f.write(p + '\n')
        f.write('}\n')
    # size-balanced chunks
    bins = [[] for _ in range(nchunks)]
    sizes = [0] * nchunks
    for c in sorted(chunks, key=len, reverse=True):
        k = sizes.index(min(sizes))
        bins[k].append(c); sizes[k] += len(c)
    for k in range(nchunks):
        with open(os.path.join(outdir, 'ref_%d.cc' % k), 'w') as f:
            f.write('// generated\n#include "ref.h"\nnamespace d0ref {\n')
            if k == 0:
                f.write('Globals g;\n')
                for decl, init in tp.saved_globals:
                    f.write('%s%s;\n' % (decl, init))
                f.write('void init_blockdata() {\n  g = Globals();\n')
                for u in tp.units:
                    if u.kind != 'blockdata': continue
                    cm = {}
                    for blk, names in u.commons:
                        for i, n in enumerate(names): cm[n] = (blk, i)
                    for no, rest in u.data:
                        m = re.match(r'^([A-Za-z_0-9]+)\s*/(.*)/\s*$', rest.strip(), re.S)
                        n = m.group(1).lower(); vals = []
                        for item in split_top(m.group(2)):
                            if not item: continue
                            mm = re.match(r'^(\d+)\*(.*)$', item)
                            if mm: vals += [mm.group(2)] * int(mm.group(1))
                            else: vals.append(item)
                        blk, i = cm[n]
                        def lit(v):
                            v = re.sub(r'[dD]', 'e', v.strip())
                            if v.endswith('.'): v += '0'
                            return v
                        if n in u.dims:
                            for kk, v in enumerate(vals):
                                f.write('  g.c_%s.m%d(%d) = %s;\n' % (blk, i, kk + 1, lit(v)))
                        else:
                            f.write('  g.c_%s.m%d = %s;\n' % (blk, i, lit(vals[0])))
                f.write('}\n')
            for c in bins[k]:
                f.write(c + '\n\n')
            f.write('}\n')

if __name__ == '__main__':
    main()
