#!/bin/bash
# verify_mutant.sh <mutant-dir> : in a scratch worktree, confirm that the change compiles, passes the 19 tests,
# that its demo fails with it and passes without it. Prints one summary line.
set -u
M=$1
W=$(mktemp -d /var/tmp/mutv.XXXXXX)
trap 'git -C /repo worktree remove --force "$W" >/dev/null 2>&1; rm -rf "$W"' EXIT
git -C /repo worktree add -q --detach "$W" HEAD >/dev/null 2>&1 || { echo "$M worktree-failed"; exit 1; }
cd "$W"
build() { cmake -S "$W" -B "$W/$1" -G Ninja -DBUILD_TESTING=ON >/dev/null 2>&1 && cmake --build "$W/$1" -j8 >/dev/null 2>&1; }
build _b0 || { echo "$M base-build-failed"; exit 1; }
cp -r "$M" "$W/mut"
( cd "$W/mut" && timeout 900 bash ./run.sh "$W/_b0" >"$W/demo0.log" 2>&1 ); D0=$?
git apply "$M/patch.diff" || { echo "$M patch-does-not-apply"; exit 1; }
build _b1 || { echo "$M mutant-build-failed"; exit 1; }
T=$(ctest --test-dir "$W/_b1" -j8 --timeout 900 2>&1 | grep -c "Passed")
( cd "$W/mut" && timeout 900 bash ./run.sh "$W/_b1" >"$W/demo1.log" 2>&1 ); D1=$?
echo "$M tests_passed=$T demo_unchanged_exit=$D0 demo_mutant_exit=$D1 :: $(tail -1 "$W/demo1.log" | cut -c1-100)"
