#!/bin/bash
# Runs the repository's own test suite on a fresh build WITHOUT the verification guard.
set -euo pipefail
D=$(mktemp -d /var/tmp/bxd0-baseline.XXXXXX)
trap 'rm -rf "$D"' EXIT
cmake -S /repo -B "$D" -G Ninja -DBUILD_TESTING=ON >"$D/cmake.log" 2>&1
cmake --build "$D" -j16 >"$D/build.log" 2>&1
ctest --test-dir "$D" -j8 --timeout 900
