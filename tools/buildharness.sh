#!/bin/bash
# buildharness.sh <source.cc> <variant> [extra flags...] : compile a harness against the current
# build of /repo (variant plain|asan|tsan) and the reference model; prints the executable path.
set -euo pipefail
SRC=$1; VARIANT=${2:-plain}; shift 2 || true
VERIF=$(cd "$(dirname "$0")/.." && pwd)
CACHE=${VERIF_CACHE:-$VERIF/.cache}
B=$("$VERIF/tools/buildlib.sh" "$VARIANT")
R=$("$VERIF/tools/buildref.sh")
case "$VARIANT" in
  plain) FLAGS="-O2" ;;
  asan)  FLAGS="-O1 -fsanitize=address,undefined -fno-sanitize=float-divide-by-zero -fsanitize-recover=all -D_GLIBCXX_ASSERTIONS" ;;
  tsan)  FLAGS="-O1 -fsanitize=thread" ;;
  pattern) FLAGS="-O2" ;;
esac
NAME=$(basename "$SRC" | sed 's/\.[a-z]*$//')
KEY=$( (cat "$SRC" "$VERIF"/engine/*.hpp "$VERIF"/ref/d0rt.h; echo "$B $R $VARIANT $FLAGS $*") | sha256sum | cut -c1-12)
mkdir -p "$CACHE/bin"
OUT="$CACHE/bin/${NAME}_${VARIANT}_$KEY"
if [ ! -x "$OUT" ]; then
  rm -f "$CACHE/bin/${NAME}_${VARIANT}_"* 2>/dev/null || true
  g++ -std=c++17 $FLAGS -g1 -fno-omit-frame-pointer -I"$R" -I"$VERIF/ref" -I"$VERIF/engine" -I/repo -I"$B" "$SRC" -o "$OUT.tmp$$" \
      -L"$R" -ld0ref -L"$B" -lBxDecay0 -Wl,-rpath,"$B" -lgsl -lgslcblas -lpthread -ldl "$@"
  mv "$OUT.tmp$$" "$OUT"
fi
echo "$OUT"
