#!/bin/bash
# try_mutant.sh <patch.diff> <check-id>... : apply the change to /repo, run the named checks (quick tier unless
# TIER=thorough), undo the change. Prints one line per check: DETECTED / missed.
P=$1; shift
git -C /repo apply "$P" || { echo "patch does not apply"; exit 1; }
trap 'git -C /repo checkout -- . ' EXIT
for c in "$@"; do
  out=$(cd /verif && timeout 3000 bin/check $c --tier ${TIER:-quick} 2>&1)
  rc=$?
  nv=$(echo "$out" | grep -c "^VIOLATION")
  if [ $rc -eq 1 ] && [ $nv -gt 0 ]; then echo "$c DETECTED ($nv violation lines): $(echo "$out" | grep -A1 '^VIOLATION' | sed -n 2p | cut -c1-260)"; else echo "$c missed (rc=$rc): $(echo "$out" | tail -1 | cut -c1-200)"; fi
done
